"""Schedule control for code that uses multiprocessing.Pool.

ControlledPool: in-process stand-in that *executes* tasks in a chosen order and *completes*
them in a chosen permutation; ordered APIs return positionally, unordered ones (and
callbacks) follow the completion order -- so code that wrongly relies on completion
order or on per-task side effects is exposed deterministically.

DelayPool: wraps a real multiprocessing.Pool; every mapped task goes through a picklable
module-level shim that sleeps according to a delay plan and reports (pid, start, end), so
late tasks can be made to finish first and the completion orders actually observed are logged.
"""
import itertools
import multiprocessing as _mp
import os
import time
import types


class _Async:
    def __init__(self, value):
        self._v = value

    def get(self, timeout=None):
        return self._v

    def wait(self, timeout=None):
        return None

    def ready(self):
        return True

    def successful(self):
        return True


class ControlledPool:
    """perm_of(n) -> completion permutation (list of task indices) for a batch of n tasks."""

    def __init__(self, processes=None, perm_of=None, log=None):
        self.processes = processes
        self.perm_of = perm_of or (lambda n: list(range(n)))
        self.log = log if log is not None else []
        self.closed = False

    def _run(self, func, tasks, star=False):
        n = len(tasks)
        perm = list(self.perm_of(n))
        assert sorted(perm) == list(range(n))
        res = [None] * n
        for i in perm:                       # execution order = completion order
            res[i] = func(*tasks[i]) if star else func(tasks[i])
        self.log.append({"n_tasks": n, "completion_order": perm, "api": None})
        return res, perm

    def map(self, func, iterable, chunksize=None):
        res, _ = self._run(func, list(iterable))
        self.log[-1]["api"] = "map"
        return res

    def starmap(self, func, iterable, chunksize=None):
        res, _ = self._run(func, [tuple(t) for t in iterable], star=True)
        self.log[-1]["api"] = "starmap"
        return res

    def imap(self, func, iterable, chunksize=1):
        res, _ = self._run(func, list(iterable))
        self.log[-1]["api"] = "imap"
        return iter(res)

    def imap_unordered(self, func, iterable, chunksize=1):
        res, perm = self._run(func, list(iterable))
        self.log[-1]["api"] = "imap_unordered"
        return iter([res[i] for i in perm])

    def map_async(self, func, iterable, chunksize=None, callback=None, error_callback=None):
        res, _ = self._run(func, list(iterable))
        self.log[-1]["api"] = "map_async"
        if callback:
            callback(res)
        return _Async(res)

    def starmap_async(self, func, iterable, chunksize=None, callback=None, error_callback=None):
        res, _ = self._run(func, [tuple(t) for t in iterable], star=True)
        self.log[-1]["api"] = "starmap_async"
        if callback:
            callback(res)
        return _Async(res)

    # apply_async: tasks are queued; they execute and "complete" (callbacks fire) in the chosen
    # permutation when any result is asked for, or at close()/join()
    def apply_async(self, func, args=(), kwds=None, callback=None, error_callback=None):
        if not hasattr(self, "_pending"):
            self._pending = []
        h = _Lazy(self)
        self._pending.append((func, args, kwds or {}, callback, h))
        return h

    def _flush(self):
        pend = getattr(self, "_pending", [])
        self._pending = []
        if not pend:
            return
        perm = list(self.perm_of(len(pend)))
        for i in perm:
            func, args, kwds, cb, h = pend[i]
            h._v = func(*args, **kwds)
            h._done = True
            if cb:
                cb(h._v)
        self.log.append({"n_tasks": len(pend), "completion_order": perm, "api": "apply_async"})

    def apply(self, func, args=(), kwds=None):
        return func(*args, **(kwds or {}))

    def close(self):
        self._flush()
        self.closed = True

    def join(self):
        self._flush()

    def terminate(self):
        self.closed = True

    def __enter__(self):
        return self

    def __exit__(self, *a):
        self.terminate()
        return False


class _Lazy:
    def __init__(self, pool):
        self._pool = pool
        self._done = False
        self._v = None

    def get(self, timeout=None):
        if not self._done:
            self._pool._flush()
        return self._v

    def wait(self, timeout=None):
        if not self._done:
            self._pool._flush()

    def ready(self):
        return self._done

    def successful(self):
        return self._done


def fake_mp(pool_factory):
    """A stand-in for the `multiprocessing` module reference held by library code."""
    m = types.SimpleNamespace()
    for name in dir(_mp):
        if not name.startswith("_"):
            try:
                setattr(m, name, getattr(_mp, name))
            except Exception:
                pass
    m.Pool = pool_factory
    m.get_context = lambda *a, **k: m
    return m


# ---------------------------------------------------------------- real pools with injected delays
def _shim(packed):
    func, arg, delay, idx, star = packed
    t0 = time.monotonic()
    if delay > 0:
        time.sleep(delay)
    out = func(*arg) if star else func(arg)
    return out, os.getpid(), idx, t0, time.monotonic()


class DelayPool:
    def __init__(self, processes, delay_of, log, registry):
        self.real = _mp.Pool(processes)
        self.delay_of = delay_of
        self.log = log
        registry.append(self.real)

    def _pack(self, func, tasks, star):
        return [(func, t, float(self.delay_of(i, len(tasks))), i, star) for i, t in enumerate(tasks)]

    def _note(self, recs, api):
        order = [r[2] for r in sorted(recs, key=lambda r: r[4])]
        self.log.append({"api": api, "n_tasks": len(recs), "completion_order": order, "pids": sorted({r[1] for r in recs})})

    def map(self, func, iterable, chunksize=None):
        recs = self.real.map(_shim, self._pack(func, list(iterable), False), 1)
        self._note(recs, "map")
        return [r[0] for r in recs]

    def starmap(self, func, iterable, chunksize=None):
        recs = self.real.map(_shim, self._pack(func, [tuple(t) for t in iterable], True), 1)
        self._note(recs, "starmap")
        return [r[0] for r in recs]

    def imap(self, func, iterable, chunksize=1):
        recs = list(self.real.imap(_shim, self._pack(func, list(iterable), False), 1))
        self._note(recs, "imap")
        return iter([r[0] for r in recs])

    def imap_unordered(self, func, iterable, chunksize=1):
        recs = list(self.real.imap_unordered(_shim, self._pack(func, list(iterable), False), 1))
        self._note(recs, "imap_unordered")
        return iter([r[0] for r in recs])      # genuinely in completion order

    def map_async(self, func, iterable, chunksize=None, callback=None, error_callback=None):
        res = self.map(func, iterable)
        if callback:
            callback(res)
        return _Async(res)

    def apply_async(self, func, args=(), kwds=None, callback=None, error_callback=None):
        r = self.real.apply_async(func, args, kwds or {}, callback, error_callback)
        return r

    def apply(self, func, args=(), kwds=None):
        return self.real.apply(func, args, kwds or {})

    def close(self):
        self.real.close()

    def join(self):
        self.real.join()

    def terminate(self):
        self.real.terminate()

    def __enter__(self):
        return self

    def __exit__(self, *a):
        self.terminate()
        return False


def all_permutations(n):
    return [list(p) for p in itertools.permutations(range(n))]
