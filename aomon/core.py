"""Shard-side context: case accounting, violation records, metrics, reach monitor."""
import hashlib
import json
import os
import sys
import time
import traceback

import numpy as np

PROP_NUM = lambda pid: int(pid[1:])


def jsonable(o, depth=0):
    """Best-effort conversion of a witness to JSON (arrays are truncated)."""
    if depth > 6:
        return repr(o)[:200]
    if isinstance(o, (str, bool)) or o is None:
        return o
    if isinstance(o, (int, np.integer)):
        return int(o)
    if isinstance(o, (float, np.floating)):
        f = float(o)
        return f if np.isfinite(f) else repr(f)
    if isinstance(o, (complex, np.complexfloating)):
        return {"re": jsonable(o.real), "im": jsonable(o.imag)}
    if isinstance(o, np.ndarray):
        if o.size <= 64:
            return {"shape": list(o.shape), "dtype": str(o.dtype),
                    "data": jsonable(o.tolist(), depth + 1)}
        return {"shape": list(o.shape), "dtype": str(o.dtype),
                "head": jsonable(o.ravel()[:16].tolist(), depth + 1)}
    if isinstance(o, dict):
        return {str(k): jsonable(v, depth + 1) for k, v in o.items()}
    if isinstance(o, (list, tuple, set, frozenset)):
        return [jsonable(v, depth + 1) for v in o]
    return repr(o)[:300]


def digest(*objs):
    h = hashlib.blake2b(digest_size=8)
    for o in objs:
        if isinstance(o, np.ndarray):
            h.update(str(o.dtype).encode())
            h.update(str(o.shape).encode())
            h.update(np.ascontiguousarray(o).tobytes())
        else:
            h.update(repr(o).encode())
    return h.hexdigest()


class Reach:
    """sys.monitoring based record of which aotools functions were entered."""

    def __init__(self, repo):
        self.repo = os.path.realpath(repo) + os.sep
        self.seen = set()
        self.on = False

    def start(self):
        mon = getattr(sys, "monitoring", None)
        if mon is None:
            return
        self.mon = mon
        self.tool = mon.COVERAGE_ID
        try:
            mon.use_tool_id(self.tool, "aomon-reach")
        except ValueError:
            return
        mon.register_callback(self.tool, mon.events.PY_START, self._cb)
        mon.set_events(self.tool, mon.events.PY_START)
        self.on = True

    def _cb(self, code, offset):
        fn = code.co_filename
        if fn.startswith(self.repo) and "/aotools/" in fn:
            self.seen.add(os.path.basename(fn) + ":" + code.co_qualname)
        return self.mon.DISABLE

    def stop(self):
        if self.on:
            self.mon.set_events(self.tool, 0)
            self.mon.free_tool_id(self.tool)
            self.on = False


class Ctx:
    def __init__(self, prop, tier, seed, shard_idx, spec):
        self.prop = prop
        self.tier = tier
        self.seed = seed
        self.shard = shard_idx
        self.spec = spec
        self.ss = np.random.SeedSequence([seed, PROP_NUM(prop), shard_idx])
        self.rng = np.random.default_rng(self.ss)
        self.evaluations = 0
        self.keys = set()
        self.fails = []
        self.fail_counts = {}
        self.samples = {}
        self.metrics = {}
        self.counters = {}
        self.notes = []
        self.t0 = time.time()

    # ---- accounting --------------------------------------------------
    def case(self, cls, key=None, nontrivial=True, sample=None):
        """Register one explored case. `key` identifies it for distinctness."""
        self.evaluations += 1
        self.counters["cases:" + cls] = self.counters.get("cases:" + cls, 0) + 1
        if nontrivial:
            k = digest(cls, key if key is not None else self.evaluations)
            self.keys.add(k)
        if sample is not None:
            lst = self.samples.setdefault(cls, [])
            if len(lst) < 2:
                lst.append(jsonable(sample))

    def count(self, name, n=1):
        self.counters[name] = self.counters.get(name, 0) + int(n)

    def metric(self, name, value):
        """Track the maximum of an observed error measure."""
        v = float(value)
        if not np.isfinite(v):
            v = float("inf")
        cur = self.metrics.get(name)
        if cur is None or v > cur:
            self.metrics[name] = v

    def metric_min(self, name, value):
        v = float(value)
        cur = self.metrics.get(name)
        if cur is None or v < cur:
            self.metrics[name] = v

    def note(self, text):
        if len(self.notes) < 50:
            self.notes.append(str(text))

    # ---- verdicts ----------------------------------------------------
    def fail(self, mechanism, message, witness=None):
        """Record a violation. `mechanism` is the classifier key (function / argument
        class / sub-oracle) -- never random values."""
        n = self.fail_counts.get(mechanism, 0)
        self.fail_counts[mechanism] = n + 1
        if n < 3:
            self.fails.append({
                "mechanism": mechanism,
                "message": str(message)[:2000],
                "witness": jsonable(witness),
                "shard": self.shard,
                "spec": jsonable(self.spec),
            })

    def check(self, cond, mechanism, message, witness=None):
        self.count("oracle_evals")
        if not cond:
            self.fail(mechanism, message, witness)
        return bool(cond)

    def close(self, name, got, want, tol, mechanism, witness=None, scale=None):
        """|got-want| <= tol (absolute, array max). NaN anywhere is a failure."""
        self.count("oracle_evals")
        got = np.asarray(got)
        want = np.asarray(want)
        if got.shape != want.shape:
            self.fail(mechanism, "%s: shape %s != %s" % (name, got.shape, want.shape), witness)
            return False
        if got.size == 0:
            return True
        with np.errstate(all="ignore"):
            d = np.abs(got - want)
        bad = ~(d <= tol)
        eq = (got == want)
        bad = bad & ~eq
        err = float(np.nanmax(np.where(eq, 0.0, d))) if d.size else 0.0
        self.metric("err:" + name, err if scale is None else err / scale)
        if bad.any():
            idx = np.unravel_index(int(np.argmax(bad)), bad.shape) if bad.ndim else ()
            w = dict(witness or {})
            tol_here = float(np.broadcast_to(np.asarray(tol, dtype=np.float64), d.shape)[idx])
            w.update({"index": [int(i) for i in idx], "got": jsonable(got[idx]),
                      "want": jsonable(want[idx]), "tol": tol_here,
                      "max_abs_err": err})
            nnan = int(np.isnan(d).sum())
            self.fail(mechanism, "%s: |got-want| = %.3g > tol %.3g at %s%s" % (
                name, float(d[idx]) if not np.isnan(d[idx]) else float("nan"), tol_here, list(w["index"]),
                " (%d non-comparable NaN entries)" % nnan if nnan else ""), w)
            return False
        return True

    def result(self, reach):
        return {
            "shard": self.shard,
            "evaluations": self.evaluations,
            "keys": sorted(self.keys),
            "fails": self.fails,
            "fail_counts": self.fail_counts,
            "samples": self.samples,
            "metrics": self.metrics,
            "counters": self.counters,
            "notes": self.notes,
            "reached": sorted(reach),
            "wall_s": time.time() - self.t0,
        }


def pure_call(ctx, name, fn, *args, **kw):
    """Call fn and assert (shadow digest) that no ndarray argument was modified."""
    arrs = [(i, a) for i, a in enumerate(args) if isinstance(a, np.ndarray)]
    arrs += [(k, a) for k, a in kw.items() if isinstance(a, np.ndarray)]
    before = [(digest(a), a.shape, a.dtype, a.strides) for _, a in arrs]
    out = fn(*args, **kw)
    for (pos, a), b in zip(arrs, before):
        ctx.count("argument_shadow_checks")
        if (digest(a), a.shape, a.dtype, a.strides) != b:
            ctx.fail("argument_mutated:" + name, "%s modified its argument %r in place" % (name, pos),
                     {"function": name, "argument": pos})
    return out
