"""Path set-up and offline dependency bootstrap.

* aotools is imported from $AOTOOLS_REPO (default /repo) -- the *working tree*,
  never an installed copy, so a check always sees the current sources.
* third-party monitor libraries (icontract, mpmath, jsonschema) are installed,
  offline, into /verif/.deps (git-ignored, so re-created after a fresh restore).
"""
import fcntl
import os
import subprocess
import sys

VERIF = os.path.dirname(os.path.dirname(os.path.abspath(__file__)))
DEPS = os.path.join(VERIF, ".deps")
WHEELS = "/opt/veriftools/wheels"
PY = "/venv/bin/python"
NEEDED = ["icontract", "mpmath", "jsonschema"]


def repo_path():
    return os.environ.get("AOTOOLS_REPO", "/repo")


def _have_all():
    return all(os.path.isdir(os.path.join(DEPS, n)) for n in NEEDED)


def ensure_deps():
    """Install the monitor libraries into /verif/.deps if they are missing."""
    if _have_all():
        return True
    os.makedirs(DEPS, exist_ok=True)
    lock = open(os.path.join(DEPS, ".lock"), "w")
    fcntl.flock(lock, fcntl.LOCK_EX)
    try:
        if _have_all():
            return True
        env = dict(os.environ, PIP_NO_INDEX="1", PIP_DISABLE_PIP_VERSION_CHECK="1")
        r = subprocess.run(
            [PY, "-m", "pip", "install", "--quiet", "--no-index", "--find-links", WHEELS,
             "--target", DEPS, "--upgrade"] + NEEDED,
            env=env, stdout=subprocess.PIPE, stderr=subprocess.STDOUT, text=True)
        if r.returncode != 0:
            sys.stderr.write(r.stdout)
            return False
        return _have_all()
    finally:
        fcntl.flock(lock, fcntl.LOCK_UN)
        lock.close()


def setup_paths():
    rp = repo_path()
    for p in (DEPS, VERIF, rp):
        if p in sys.path:
            sys.path.remove(p)
    # repo first so that "import aotools" is the working tree
    sys.path.insert(0, DEPS)
    sys.path.insert(0, VERIF)
    sys.path.insert(0, rp)


def import_aotools():
    setup_paths()
    import aotools  # noqa
    f = os.path.realpath(aotools.__file__)
    if not f.startswith(os.path.realpath(repo_path()) + os.sep):
        raise RuntimeError("aotools imported from %s, not from %s" % (f, repo_path()))
    return aotools


if __name__ == "__main__":
    ok = ensure_deps()
    print("deps ok" if ok else "deps FAILED")
    sys.exit(0 if ok else 1)
