"""Probe generators: turn "the ensemble over all random draws" into finitely many executions.

numpy.random.default_rng(g) returns g itself when g is a Generator, and both the FFT
screens (seed=) and the infinite screens (random_seed=) pass their seed through
default_rng, so a scripted Generator drives the real code through its public interface.
"""
import numpy as np


class ScriptedGenerator(np.random.Generator):
    """normal() returns scripted arrays (FIFO) and logs every request.

    script: list of arrays (consumed in order) or a callable(request_index, size) -> array.
    Requests beyond the script return zeros (and are logged)."""

    def __init__(self, script=None):
        super().__init__(np.random.PCG64(0))
        self.script = script
        self.log = []
        self.n = 0

    def normal(self, loc=0.0, scale=1.0, size=None):
        self.log.append({"loc": float(np.max(loc)), "scale": float(np.max(scale)),
                         "size": tuple(np.atleast_1d(size).tolist()) if size is not None else None})
        i = self.n
        self.n += 1
        shape = () if size is None else tuple(np.atleast_1d(size).tolist())
        if callable(self.script):
            out = self.script(i, shape)
        elif self.script is not None and i < len(self.script):
            out = self.script[i]
        else:
            out = None
        if out is None:
            return np.zeros(shape)
        out = np.asarray(out, dtype=np.float64)
        if out.shape != shape:
            raise AssertionError("scripted draw %d has shape %s, request was %s" % (i, out.shape, shape))
        return out.copy()

    # any other distribution method would bypass the script: make that visible
    def standard_normal(self, size=None, dtype=np.float64, out=None):
        return self.normal(0.0, 1.0, size)

    def _unsupported(self, *a, **k):
        raise AssertionError("library requested a draw that the probe does not script")

    random = uniform = integers = choice = _unsupported


class RecordingGenerator(np.random.Generator):
    """A real PCG64 stream whose normal() draws are recorded (trace conformance)."""

    def __init__(self, seed=0):
        super().__init__(np.random.PCG64(seed))
        self.draws = []

    def normal(self, loc=0.0, scale=1.0, size=None):
        v = super().normal(loc, scale, size)
        self.draws.append({"loc": loc, "scale": scale, "size": size, "value": np.array(v, copy=True)})
        return v


def unit_script(which, index, shapes):
    """Script with a single 1 at flat position `index` of request `which`; zeros elsewhere."""
    out = []
    for i, shp in enumerate(shapes):
        a = np.zeros(shp)
        if i == which:
            a.flat[index] = 1.0
        out.append(a)
    return out


def discover_shapes(fn, *args, **kw):
    """The shapes of the standard-normal requests a call makes (observed with an all-zero script)."""
    g = ScriptedGenerator([])
    fn(*args, seed=g, **kw)
    return [tuple(l["size"]) for l in g.log]


def unit_stream_script(position, shapes):
    """Script with a single 1 at flat `position` of the concatenation of all requested arrays."""
    out = []
    off = 0
    for shp in shapes:
        n = int(np.prod(shp))
        a = np.zeros(shp)
        if off <= position < off + n:
            a.flat[position - off] = 1.0
        out.append(a)
        off += n
    return out


class ProbeNotApplicable(Exception):
    """The object does not draw its innovation the way the probe can script (e.g. block-wise): nothing can be observed."""
