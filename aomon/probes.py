"""Probe generators: turn "the ensemble over all random draws" into finitely many executions.

numpy.random.default_rng(g) returns g itself when g is a Generator, and both the FFT
screens (seed=) and the infinite screens (random_seed=) pass their seed through
default_rng, so a scripted Generator drives the real code through its public interface.
"""
import numpy as np


class ScriptedGenerator(np.random.Generator):
    """normal() returns scripted arrays (FIFO) and logs every request.

    script: list of arrays (consumed in order) or a callable(request_index, size) -> array.
    Requests beyond the script return zeros (and are logged)."""

    def __init__(self, script=None):
        super().__init__(np.random.PCG64(0))
        self.script = script
        self.log = []
        self.n = 0

    def normal(self, loc=0.0, scale=1.0, size=None):
        self.log.append({"loc": float(np.max(loc)), "scale": float(np.max(scale)),
                         "size": tuple(np.atleast_1d(size).tolist()) if size is not None else None})
        i = self.n
        self.n += 1
        shape = () if size is None else tuple(np.atleast_1d(size).tolist())
        if callable(self.script):
            out = self.script(i, shape)
        elif self.script is not None and i < len(self.script):
            out = self.script[i]
        else:
            out = None
        if out is None:
            return np.zeros(shape)
        out = np.asarray(out, dtype=np.float64)
        if out.shape != shape:
            raise AssertionError("scripted draw %d has shape %s, request was %s" % (i, out.shape, shape))
        return out.copy()

    # any other distribution method would bypass the script: make that visible
    def standard_normal(self, size=None, dtype=np.float64, out=None):
        return self.normal(0.0, 1.0, size)

    def _unsupported(self, *a, **k):
        raise AssertionError("library requested a draw that the probe does not script")

    random = uniform = integers = choice = _unsupported


class RecordingGenerator(np.random.Generator):
    """A real PCG64 stream whose normal() draws are recorded (trace conformance)."""

    def __init__(self, seed=0):
        super().__init__(np.random.PCG64(seed))
        self.draws = []

    def normal(self, loc=0.0, scale=1.0, size=None):
        v = super().normal(loc, scale, size)
        self.draws.append({"loc": loc, "scale": scale, "size": size, "value": np.array(v, copy=True)})
        return v


def unit_script(which, index, shapes):
    """Script with a single 1 at flat position `index` of request `which`; zeros elsewhere."""
    out = []
    for i, shp in enumerate(shapes):
        a = np.zeros(shp)
        if i == which:
            a.flat[index] = 1.0
        out.append(a)
    return out


def discover_shapes(fn, *args, **kw):
    """The shapes of the standard-normal requests a call makes (observed with an all-zero script)."""
    g = ScriptedGenerator([])
    fn(*args, seed=g, **kw)
    return [tuple(l["size"]) for l in g.log]


def unit_stream_script(position, shapes):
    """Script with a single 1 at flat `position` of the concatenation of all requested arrays."""
    out = []
    off = 0
    for shp in shapes:
        n = int(np.prod(shp))
        a = np.zeros(shp)
        if off <= position < off + n:
            a.flat[position - off] = 1.0
        out.append(a)
        off += n
    return out


class ProbeNotApplicable(Exception):
    """The object does not draw its innovation the way the probe can script (e.g. block-wise): nothing can be observed."""


class _LedgerGenerator(np.random.Generator):
    """A Generator on the given bit generator (same stream as the one the library asked for) whose Gaussian draws are entered in a ledger."""

    def __init__(self, bit_generator, ledger):
        super().__init__(bit_generator)
        self._ledger = ledger
        self._gid = ledger.new_generator()

    def normal(self, loc=0.0, scale=1.0, size=None):
        v = super().normal(loc, scale, size)
        self._ledger.enter(self._gid, v, loc, scale)
        return v

    def standard_normal(self, size=None, dtype=np.float64, out=None):
        v = super().standard_normal(size, dtype, out)
        self._ledger.enter(self._gid, v, 0.0, 1.0)
        return v


class DrawLedger:
    """Exactly-once monitor over random draws: while active, every Generator the library obtains from
    numpy.random.default_rng(<not a Generator>) is replaced by one with the same stream that books each Gaussian
    draw. Independent draws are distinct float64 numbers (a coincidence has probability ~ n^2 2^-53); a standard
    draw that appears twice was produced by two generators in the same state, i.e. one random number was used
    for two purposes and the two quantities built from it are not independent."""

    def __init__(self):
        self.entries = []       # (generator id, standardised values)
        self.ngen = 0
        self._real = None

    def new_generator(self):
        self.ngen += 1
        return self.ngen - 1

    def enter(self, gid, v, loc, scale):
        a = np.asarray(v, dtype=np.float64).ravel()
        if np.ndim(loc) == 0 and np.ndim(scale) == 0 and float(scale) != 0:
            a = (a - float(loc)) / float(scale)
        self.entries.append((gid, a.copy()))

    def __enter__(self):
        self._real = np.random.default_rng
        ledger = self

        def default_rng(seed=None):
            g = ledger._real(seed)
            if isinstance(seed, np.random.Generator):
                return g
            return _LedgerGenerator(g.bit_generator, ledger)

        np.random.default_rng = default_rng
        return self

    def __exit__(self, *exc):
        np.random.default_rng = self._real
        return False

    def n_draws(self):
        return int(sum(len(a) for _, a in self.entries))

    def reused(self):
        """Number of booked values that occur more than once (0 for independent draws) and an example."""
        if not self.entries:
            return 0, None
        allv = np.concatenate([a for _, a in self.entries])
        gid = np.concatenate([np.full(len(a), g) for g, a in self.entries])
        order = np.argsort(allv, kind="stable")
        s = allv[order]
        same = np.where(s[1:] == s[:-1])[0]
        if len(same) == 0:
            return 0, None
        k = int(same[0])
        return int(len(same)), {"value": float(s[k]), "generators": [int(gid[order[k]]), int(gid[order[k + 1]])], "generators_created": self.ngen}
