"""Coordinator: plan shards, run them in fresh interpreters, merge, classify, report.

usage:  vcheck Cxx quick|thorough          (VERIF_SEED, VERIF_TIER honoured)
        vcheck Cxx --replay <file>
exit:   0 held on everything observed / 1 violated / 2 inconclusive
"""
import concurrent.futures
import hashlib
import importlib
import json
import os
import shutil
import subprocess
import sys
import tempfile
import time

from aomon import boot

VERIF = boot.VERIF
PY = boot.PY
NCPU = int(os.environ.get("VERIF_JOBS", "16"))


def load_known():
    p = os.path.join(VERIF, "known_findings.json")
    if not os.path.exists(p):
        return []
    with open(p) as f:
        return json.load(f).get("findings", [])


def shard_env():
    env = dict(os.environ)
    env["PYTHONHASHSEED"] = "0"
    env["AOTOOLS_VERIF"] = "1"
    env["PYTHONPATH"] = VERIF
    env["PYTHONDONTWRITEBYTECODE"] = "1"
    for k in ("OMP_NUM_THREADS", "OPENBLAS_NUM_THREADS", "MKL_NUM_THREADS", "NUMBA_NUM_THREADS"):
        env.setdefault(k, "1")
    env.setdefault("MPLBACKEND", "Agg")
    return env


def run_shard(prop, tier, seed, idx, spec, scratch, timeout):
    specf = os.path.join(scratch, "spec_%d.json" % idx)
    outf = os.path.join(scratch, "out_%d.json" % idx)
    with open(specf, "w") as f:
        json.dump(spec, f)
    env = shard_env()
    for k, v in (spec.get("env") or {}).items():
        env[k] = str(v)
    t0 = time.time()
    try:
        r = subprocess.run([PY, "-m", "aomon.shard", prop, tier, str(seed), str(idx), specf, outf],
                           cwd=VERIF, env=env, stdout=subprocess.PIPE, stderr=subprocess.STDOUT,
                           text=True, timeout=timeout)
        out = r.stdout[-4000:]
        rc = r.returncode
    except subprocess.TimeoutExpired as e:
        return {"shard": idx, "status": "timeout", "error": "watchdog %ss" % timeout,
                "wall_s": time.time() - t0}
    if not os.path.exists(outf):
        return {"shard": idx, "status": "crash", "error": "rc=%s\n%s" % (rc, out),
                "wall_s": time.time() - t0}
    with open(outf) as f:
        res = json.load(f)
    res["stdout_tail"] = out[-500:]
    return res


def merge(results):
    m = {"evaluations": 0, "keys": set(), "fails": [], "fail_counts": {}, "samples": {},
         "metrics": {}, "counters": {}, "notes": [], "reached": set(), "problems": [],
         "shard_wall": []}
    for r in results:
        if r.get("status") != "ok":
            m["problems"].append("shard %s: %s: %s" % (r.get("shard"), r.get("status"),
                                                      (r.get("error") or "")[-1500:]))
        m["shard_wall"].append(round(r.get("wall_s", 0.0), 2))
        m["evaluations"] += r.get("evaluations", 0)
        m["keys"].update(r.get("keys", []))
        m["fails"].extend(r.get("fails", []))
        for k, v in r.get("fail_counts", {}).items():
            m["fail_counts"][k] = m["fail_counts"].get(k, 0) + v
        for k, v in r.get("samples", {}).items():
            lst = m["samples"].setdefault(k, [])
            for s in v:
                if len(lst) < 2:
                    lst.append(s)
        for k, v in r.get("metrics", {}).items():
            if k.startswith("min:"):
                m["metrics"][k] = min(m["metrics"].get(k, v), v)
            else:
                m["metrics"][k] = max(m["metrics"].get(k, v), v)
        for k, v in r.get("counters", {}).items():
            m["counters"][k] = m["counters"].get(k, 0) + v
        m["notes"].extend(r.get("notes", []))
        m["reached"].update(r.get("reached", []))
    return m


def match_known(known, prop, mechanism):
    for k in known:
        if k.get("property") == prop and k.get("status") == "open" and k.get("mechanism") == mechanism:
            return k
    return None


def write_evidence(prop, tier, seed, mod, m, wall, nviol, inconclusive, known_lines, nshards):
    samples = []
    for cls, lst in sorted(m["samples"].items()):
        for s in lst:
            samples.append({"class": cls, "case": s})
    if not samples:
        samples = [{"class": "none", "case": "no case was recorded"}]
    cov = {
        "evaluations": int(m["evaluations"]),
        "distinct_nontrivial": int(len(m["keys"])),
        "rule": getattr(mod, "RULE", ""),
        "samples": samples[:24],
        "exhaustive": bool(getattr(mod, "EXHAUSTIVE", False)),
        "oracle_evaluations": int(m["counters"].get("oracle_evals", 0)),
        "counters": {k: int(v) for k, v in sorted(m["counters"].items())},
        "observed_max_errors_and_metrics": {k: v for k, v in sorted(m["metrics"].items())},
        "aotools_functions_reached": sorted(m["reached"]),
        "required_functions": list(getattr(mod, "REQUIRED", [])),
        "shards": nshards,
        "shard_wall_s": m["shard_wall"],
        "verdict": "violated" if nviol else ("inconclusive" if inconclusive else "held_on_observed"),
        "inconclusive_reasons": inconclusive,
        "known_findings_reported": known_lines,
        "violating_mechanisms": {k: int(v) for k, v in sorted(m["fail_counts"].items())},
        "notes": m["notes"][:30],
    }
    ev = {
        "property_id": prop,
        "tier": tier,
        "seed": int(seed),
        "level": getattr(mod, "LEVEL", "exploration"),
        "coverage": cov,
        "assumptions": list(getattr(mod, "ASSUMPTIONS", [])),
        "wall_s": round(wall, 2),
        "violations": int(nviol),
    }
    evdir = os.environ.get("VERIF_EVIDENCE_DIR") or os.path.join(VERIF, "evidence")
    os.makedirs(evdir, exist_ok=True)
    p = os.path.join(evdir, prop + ".json")
    tmp = p + ".tmp"
    with open(tmp, "w") as f:
        json.dump(ev, f, indent=1, sort_keys=True)
    os.replace(tmp, p)
    return p


def execute(prop, tier, seed, specs, timeout):
    scratch = tempfile.mkdtemp(prefix="aomon_%s_" % prop, dir="/dev/shm" if os.path.isdir("/dev/shm") else None)
    try:
        with concurrent.futures.ThreadPoolExecutor(max_workers=NCPU) as ex:
            futs = [ex.submit(run_shard, prop, tier, seed, i, s, scratch, timeout)
                    for i, s in specs]
            return [f.result() for f in futs]
    finally:
        shutil.rmtree(scratch, ignore_errors=True)


def main(argv):
    if len(argv) < 2:
        print(__doc__)
        return 2
    prop = argv[0].upper()
    t0 = time.time()
    if not boot.ensure_deps():
        print("INCONCLUSIVE property=%s reason=offline dependency bootstrap failed" % prop)
        return 2
    boot.setup_paths()
    mod = importlib.import_module("aomon.checks." + prop.lower())
    try:
        seed = abs(int(os.environ.get("VERIF_SEED", "0") or "0")) % (2 ** 63)
    except ValueError:
        seed = 0

    if argv[1] == "--replay":
        with open(argv[2]) as f:
            rp = json.load(f)
        tier = rp["tier"]
        seed = rp["seed"]
        res = execute(prop, tier, seed, [(rp["shard"], rp["spec"])], 7200)
        m = merge(res)
        hit = [f for f in m["fails"] if f["mechanism"] == rp["mechanism"]]
        for f in m["fails"]:
            print("replayed failure: %s :: %s" % (f["mechanism"], f["message"]))
        for p in m["problems"]:
            print("PROBLEM", p)
        if hit:
            print("VIOLATION property=%s replay=%s" % (prop, argv[2]))
            return 1
        print("replay: mechanism %r did not fail again" % rp["mechanism"])
        return 2 if m["problems"] else 0

    tier = argv[1]
    if tier not in ("quick", "thorough"):
        print("tier must be quick or thorough")
        return 2
    specs = list(enumerate(mod.plan(tier, seed)))
    timeout = getattr(mod, "TIMEOUT", {"quick": 900, "thorough": 5400})[tier]
    results = execute(prop, tier, seed, specs, timeout)
    m = merge(results)
    wall = time.time() - t0

    known = load_known()
    # classify failures by mechanism
    by_mech = {}
    for f in m["fails"]:
        by_mech.setdefault(f["mechanism"], f)
    known_lines = []
    viol = []
    for mech, f in sorted(by_mech.items()):
        k = match_known(known, prop, mech)
        if k is not None:
            line = "KNOWN-FINDING: property=%s %s [%s; %d case(s) this run]" % (
                prop, k["what"], mech, m["fail_counts"].get(mech, 1))
            known_lines.append(line)
        else:
            viol.append((mech, f))

    inconclusive = list(m["problems"])
    for req in getattr(mod, "REQUIRED", []):
        if req not in m["reached"]:
            inconclusive.append("required function never entered: " + req)
    for cname in getattr(mod, "REQUIRED_COUNTERS", []):
        if m["counters"].get(cname, 0) <= 0:
            inconclusive.append("monitor never evaluated: " + cname)
    if m["evaluations"] == 0:
        inconclusive.append("no case was executed")
    if len(m["keys"]) < 2:
        inconclusive.append("fewer than two distinct non-trivial cases")

    rpdir = os.path.join(os.environ["VERIF_EVIDENCE_DIR"], "replays") if os.environ.get("VERIF_EVIDENCE_DIR") \
        else os.path.join(VERIF, "replays")
    os.makedirs(rpdir, exist_ok=True)
    vlines = []
    for mech, f in viol:
        h = hashlib.blake2b((prop + mech).encode(), digest_size=6).hexdigest()
        rp = os.path.join(rpdir, "%s-%s.json" % (prop, h))
        with open(rp, "w") as fh:
            json.dump({"property": prop, "tier": tier, "seed": seed, "shard": f["shard"],
                       "spec": f["spec"], "mechanism": mech, "message": f["message"],
                       "witness": f["witness"], "count": m["fail_counts"].get(mech, 1)}, fh, indent=1)
        vlines.append((mech, f, rp))

    ev = write_evidence(prop, tier, seed, mod, m, wall, len(viol), inconclusive, known_lines, len(specs))

    print("property=%s tier=%s seed=%d shards=%d evaluations=%d distinct_nontrivial=%d oracle_evals=%d wall=%.1fs"
          % (prop, tier, seed, len(specs), m["evaluations"], len(m["keys"]),
             m["counters"].get("oracle_evals", 0), wall))
    for k, v in sorted(m["metrics"].items()):
        print("  observed %s = %.4g" % (k, v))
    for line in known_lines:
        print(line)
    for mech, f, rp in vlines:
        print("  failing: %s :: %s" % (mech, f["message"]))
        print("VIOLATION property=%s replay=%s" % (prop, rp))
    if viol:
        return 1
    if inconclusive:
        for r in inconclusive:
            print("INCONCLUSIVE property=%s reason=%s" % (prop, r.replace("\n", " | ")[:1500]))
        return 2
    print("HELD property=%s on everything observed (evidence: %s)" % (prop, ev))
    return 0


if __name__ == "__main__":
    sys.exit(main(sys.argv[1:]))
