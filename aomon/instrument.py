"""Contract installation on the real aotools callables (icontract), on every alias.

A contract condition here *records* its verdict into the shard context and returns
True, so that one violation does not mask later ones and never changes what the
workload observes.  Each installation counts its evaluations; zero evaluations
make the run inconclusive (a reference bound before decoration would bypass the
contract, so every alias we know of is rebound).
"""
import importlib
import sys

import icontract


class ContractBroken(Exception):
    pass


def rebind_everywhere(old, new):
    """Replace every module-level / class-level reference to `old` inside aotools by `new`."""
    n = 0
    for name, mod in list(sys.modules.items()):
        if not (name == "aotools" or name.startswith("aotools.")) or mod is None:
            continue
        for attr, val in list(vars(mod).items()):
            if val is old:
                setattr(mod, attr, new)
                n += 1
    return n


def ensure_on_function(func, condition, ctx, counter, snapshots=()):
    """Wrap a module-level function with an icontract post-condition and rebind its aliases.

    `condition` must be a named function whose parameter names match the function's
    (plus `result`, and `OLD` if snapshots are given)."""
    wrapped = icontract.ensure(condition, error=ContractBroken)(func)
    for snap, name in snapshots:
        wrapped = icontract.snapshot(snap, name=name)(wrapped)
    n = rebind_everywhere(func, wrapped)
    ctx.count("contract_aliases_rebound:" + counter, n)
    return wrapped


def ensure_on_method(cls, method_name, condition, ctx, counter):
    func = cls.__dict__[method_name]
    wrapped = icontract.ensure(condition, error=ContractBroken)(func)
    setattr(cls, method_name, wrapped)
    ctx.count("contract_aliases_rebound:" + counter, 1)
    return wrapped
