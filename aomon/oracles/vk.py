"""Independent float64 reference for von Karman / Kolmogorov phase statistics.

Three routes, cross-checked against each other by `self_check()` before the
library is used as an oracle:
  (a) closed form with scipy's K_{5/6}, r -> 0 handled by the analytic limit and,
      for small arguments, by the ascending series (no cancellation);
  (b) numerical Hankel transform of the PSD 0.023 r0^-5/3 (f^2 + L0^-2)^-11/6
      (no Bessel-K involved);
  (c) mpmath at 40 digits on spot points.
"""
import math

import numpy as np
from scipy import integrate, special

NU = 5.0 / 6.0
# Gamma(11/6) / (2^(5/6) pi^(8/3)) * (24/5 Gamma(6/5))^(5/6)
CB = (math.gamma(11.0 / 6.0) / (2 ** (5.0 / 6.0) * math.pi ** (8.0 / 3.0))
      * ((24.0 / 5.0) * math.gamma(6.0 / 5.0)) ** (5.0 / 6.0))
K0 = 2 ** (NU - 1) * math.gamma(NU)  # lim x->0 of x^nu K_nu(x)


def variance(r0, L0):
    """B(0) = 0.0863 (L0/r0)^(5/3)."""
    return (L0 / r0) ** (5.0 / 3.0) * CB * K0


def _g_series(x, terms=30):
    """1 - x^nu K_nu(x) / (2^(nu-1) Gamma(nu)) by the ascending series (x < ~2)."""
    x = np.asarray(x, dtype=np.float64)
    h2 = (x / 2.0) ** 2
    g1 = math.gamma(1.0 - NU)
    s1 = np.zeros_like(x)
    s2 = np.zeros_like(x)
    pw = np.ones_like(x)
    for k in range(terms):
        if k >= 1:
            s1 = s1 + pw / (math.factorial(k) * math.gamma(k - NU + 1.0))
        s2 = s2 + pw / (math.factorial(k) * math.gamma(k + NU + 1.0))
        pw = pw * h2
    with np.errstate(all="ignore"):
        x2nu = np.where(x > 0, x ** (2 * NU), 0.0)
    return -g1 * s1 + g1 * 2.0 ** (-2 * NU) * x2nu * s2


def g(x):
    """1 - x^nu K_nu(x)/K0 for x >= 0 (array); exact 0 at x = 0."""
    x = np.asarray(x, dtype=np.float64)
    out = np.empty_like(x)
    small = x < 1.0
    out[small] = _g_series(x[small])
    xl = x[~small]
    with np.errstate(all="ignore"):
        out[~small] = 1.0 - xl ** NU * special.kv(NU, xl) / K0
    return out


def structure_function(r, r0, L0):
    """D(r) = 2 (B(0) - B(r)), von Karman."""
    r = np.asarray(r, dtype=np.float64)
    return 2.0 * variance(r0, L0) * g(2.0 * np.pi * np.abs(r) / L0)


def covariance(r, r0, L0):
    """B(r), von Karman."""
    r = np.asarray(r, dtype=np.float64)
    return variance(r0, L0) * (1.0 - g(2.0 * np.pi * np.abs(r) / L0))


def kolmogorov(r, r0):
    return 6.8839 * (np.abs(np.asarray(r, dtype=np.float64)) / r0) ** (5.0 / 3.0)


def psd(f, r0, L0, c=0.023):
    return c * r0 ** (-5.0 / 3.0) * (np.asarray(f, dtype=np.float64) ** 2 + L0 ** -2.0) ** (-11.0 / 6.0)


def hankel_structure_function(r, r0, L0, c=0.023):
    """D(r) = 4 pi int_0^inf f Phi(f) [1 - J0(2 pi f r)] df by piece-wise quadrature."""
    r = float(r)
    if r == 0.0:
        return 0.0

    def integrand(f):
        return f * psd(f, r0, L0, c) * (1.0 - special.j0(2 * np.pi * f * r))

    # pieces: up to the first few zeros of J0 on a geometric grid, then an
    # oscillatory tail integrated zero-to-zero until it is negligible
    total = 0.0
    f0 = 1.0 / L0
    edges = [0.0]
    step = min(f0, 1.0 / r) / 4.0
    f = step
    fmax = max(200.0 / r, 200.0 * f0)
    while f < fmax:
        edges.append(f)
        f += min(max(step, f * 0.25), 0.5 / r)
    edges.append(fmax)
    for a, b in zip(edges[:-1], edges[1:]):
        v, _ = integrate.quad(integrand, a, b, limit=200, epsabs=0, epsrel=1e-11)
        total += v
    # analytic tail of the non-oscillatory part: int_fmax^inf f * c r0^-5/3 f^-11/3 df
    tail = c * r0 ** (-5.0 / 3.0) * fmax ** (-5.0 / 3.0) / (5.0 / 3.0)
    total += tail
    return 4.0 * np.pi * total


def mp_structure_function(r, r0, L0, dps=40):
    import mpmath as mp
    mp.mp.dps = dps
    nu = mp.mpf(5) / 6
    cb = (mp.gamma(mp.mpf(11) / 6) / (mp.mpf(2) ** nu * mp.pi ** (mp.mpf(8) / 3))
          * ((mp.mpf(24) / 5) * mp.gamma(mp.mpf(6) / 5)) ** nu)
    k0 = mp.mpf(2) ** (nu - 1) * mp.gamma(nu)
    A = (mp.mpf(L0) / mp.mpf(r0)) ** (mp.mpf(5) / 3)
    if r == 0:
        return 0.0
    x = 2 * mp.pi * mp.mpf(r) / mp.mpf(L0)
    return float(2 * A * cb * (k0 - x ** nu * mp.besselk(nu, x)))


def self_check(n_mp=6, n_hankel=3, seed=0):
    """Cross-check the three routes; returns dict of max relative disagreements."""
    rng = np.random.default_rng(seed)
    worst_mp = 0.0
    for _ in range(n_mp):
        r0 = 10 ** rng.uniform(-1.5, 0.3)
        L0 = 10 ** rng.uniform(-0.3, 2.5)
        r = L0 * 10 ** rng.uniform(-5, 1.5)
        a = float(structure_function(r, r0, L0))
        b = mp_structure_function(r, r0, L0)
        worst_mp = max(worst_mp, abs(a - b) / abs(b))
    worst_h = 0.0
    for _ in range(n_hankel):
        r0 = 10 ** rng.uniform(-1.0, 0.0)
        L0 = 10 ** rng.uniform(0.0, 2.0)
        r = L0 * 10 ** rng.uniform(-2, 0.5)
        a = float(structure_function(r, r0, L0))
        b = hankel_structure_function(r, r0, L0, c=0.022896)  # exact constant
        worst_h = max(worst_h, abs(a - b) / abs(b))
    return {"closed_vs_mpmath": worst_mp, "closed_vs_hankel_exact_constant": worst_h}
