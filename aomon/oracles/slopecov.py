"""Independent reference for the WFS slope covariance matrix.

One generic four-point formula, no xx/yy/xy special cases:

    slope_a = lambda_a / (2 pi d_a') * (phi(p_a + d_a'/2 e_a) - phi(p_a - d_a'/2 e_a))
    Cov(phi(a)-phi(b), phi(c)-phi(e)) = 1/2 [D(a-e) + D(b-c) - D(a-c) - D(b-e)]

with p the *projected* sub-aperture centre at the layer,
    p = s * ((i + 1/2) d - D_tel/2) + theta * h ,   s = 1 - h/H  (1 for H = 0, i.e. NGS)
and d' = s d the projected sub-aperture size.  Order: per WFS all axis-0 slopes
("x"), then all axis-1 slopes ("y"); sub-apertures in row-major order of the mask.
Summed over layers in float64.
"""
import numpy as np

from . import vk

ARCSEC = np.pi / 180.0 / 3600.0


def slope_endpoints(cfg, layer, projection="small_angle"):
    """Return (P_plus, P_minus, coef, wfs_index) for every slope at one layer."""
    h = float(cfg["layer_altitudes"][layer])
    Pp, Pm, coef, widx = [], [], [], []
    for w in range(cfg["n_wfs"]):
        mask = np.asarray(cfg["pupil_masks"][w])
        d = float(cfg["subap_diameters"][w])
        H = float(cfg["gs_altitudes"][w])
        s = 1.0 - h / H if H != 0 else 1.0
        idx = np.argwhere(mask == 1).astype(np.float64)  # row-major
        centre = (idx + 0.5) * d - cfg["telescope_diameter"] / 2.0
        theta = np.asarray(cfg["gs_positions"][w], dtype=np.float64) * ARCSEC
        # the footprint of a star at angle theta is displaced by h theta (small-angle form, what the library documents) or by
        # h tan(theta) (exact); "geometrically projected" covers both, they differ by h theta^3 / 3
        p = s * centre + (np.tan(theta) if projection == "tangent" else theta) * h
        dp = s * d
        lam = float(cfg["wfs_wavelengths"][w])
        for axis in (0, 1):
            e = np.zeros(2)
            e[axis] = 1.0
            Pp.append(p + 0.5 * dp * e)
            Pm.append(p - 0.5 * dp * e)
            coef.append(np.full(len(p), lam / (2 * np.pi * dp)))
            widx.append(np.full(len(p), w))
    return (np.concatenate(Pp), np.concatenate(Pm), np.concatenate(coef), np.concatenate(widx))


def reference_matrix(cfg, layers=None, projection="small_angle"):
    n_layers = cfg["n_layers"]
    layers = range(n_layers) if layers is None else layers
    total = None
    for l in layers:
        Pp, Pm, coef, _ = slope_endpoints(cfg, l, projection)
        r0 = float(cfg["layer_r0s"][l])
        L0 = float(cfg["layer_L0s"][l])

        def D(A, B):
            diff = A[:, None, :] - B[None, :, :]
            return vk.structure_function(np.sqrt((diff ** 2).sum(-1)), r0, L0)

        c = 0.5 * (D(Pp, Pm) + D(Pm, Pp) - D(Pp, Pp) - D(Pm, Pm))
        c = c * coef[:, None] * coef[None, :]
        total = c if total is None else total + c
    return total
