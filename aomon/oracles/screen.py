"""Independent reference for the FFT phase screen's exact ensemble covariance.

C(dx, dy) = sum_f PSD(f) del_f^2 cos(2 pi (fx dx + fy dy)) over the screen's own frequency
grid f = (k - N/2)/(N delta), k = 0..N-1 on both axes, zero frequency removed, with the
modified von Karman spectrum  0.023 r0^(-5/3) exp(-(f/fm)^2) (f^2 + 1/L0^2)^(-11/6),
fm = 5.92/(2 pi l0).  Written as an explicit sum over the frequency grid (no FFT).
"""
import numpy as np


def psd_mvk(f, r0, L0, l0, c=0.023):
    fm = 5.92 / l0 / (2 * np.pi)
    return c * r0 ** (-5.0 / 3.0) * np.exp(-(f / fm) ** 2) / (f ** 2 + L0 ** -2.0) ** (11.0 / 6.0)


def grid_covariance(N, delta, r0, L0, l0, c=0.023):
    """Return C[a, b] = covariance between pixels separated by (a, b) pixels (a, b = 0..N-1)."""
    del_f = 1.0 / (N * delta)
    k = np.arange(N) - N // 2
    f1 = k * del_f
    FX, FY = np.meshgrid(f1, f1, indexing="ij")
    P = psd_mvk(np.sqrt(FX ** 2 + FY ** 2), r0, L0, l0, c)
    P[N // 2, N // 2] = 0.0
    P = P * del_f ** 2
    # separable cosines: cos(a+b) = cos a cos b - sin a sin b ; loop over lags explicitly
    lag = np.arange(N) * delta
    ca = np.cos(2 * np.pi * np.outer(lag, f1))   # [lag, k]
    sa = np.sin(2 * np.pi * np.outer(lag, f1))
    C = ca @ P @ ca.T - sa @ P @ sa.T
    return C


def subharmonic_covariance_increment(N, delta, r0, L0, l0, dx, dy, c=0.023):
    """Covariance added by the three 3x3 sub-harmonic grids between two pixels separated by (dx, dy) metres,
    *before* the mean removal (which does not change differences)."""
    D = N * delta
    tot = 0.0
    for p in range(1, 4):
        del_f = 1.0 / (3 ** p * D)
        for i in (-1, 0, 1):
            for j in (-1, 0, 1):
                if i == 0 and j == 0:
                    continue
                fx, fy = i * del_f, j * del_f
                P = psd_mvk(np.hypot(fx, fy), r0, L0, l0, c) * del_f ** 2
                tot = tot + P * np.cos(2 * np.pi * (fx * dx + fy * dy))
    return tot
