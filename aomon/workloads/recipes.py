"""Call recipes for every public callable of aotools (used by C20).

A recipe is a function(rng) -> list of calls; a call is a dict
    {"args": tuple, "kwargs": dict, "seeded": bool (result must be reproducible), "dtypes": tuple of extra dtypes to try}
Array arguments are created float64 C-contiguous here; C20 derives layout / dtype variants from them.
EXCLUDED lists public callables deliberately not exercised, each with its reason.
"""
import numpy as np

EXCLUDED = {
    "turbulence.temporal_ps:plot_tps": "its purpose is a GUI side effect (pyplot.show)",
    "turbulence.temporal_ps:fit_tps": "calls an undefined name (test_tps_fit_minimize_func); cannot run at all",
    "turbulence.infinitephasescreen:PhaseScreen": "abstract base without constructor arguments; exercised through its two subclasses",
}


def _img(rng, n=12, m=None):
    m = n if m is None else m
    c0, c1 = np.arange(n)[:, None], np.arange(m)[None, :]
    return np.exp(-((c0 - n / 2.3) ** 2 + (c1 - m / 1.8) ** 2) / 6.0) + 0.05 * rng.random((n, m)) + 0.01


def _call(*args, seeded=True, dtypes=(), **kwargs):
    return {"args": args, "kwargs": kwargs, "seeded": seeded, "dtypes": dtypes}


F32 = (np.float32,)
F32I = (np.float32, np.int64)
ALLD = (np.float32, np.int64, np.complex128)


def build(aotools):
    import aotools.functions.karhunenLoeve as KL
    R = {}
    # ---- astronomy
    R["astronomy._astronomy:photons_per_mag"] = lambda g: [_call(5.0, (g.random((6, 6)) < 0.7).astype(float), 0.1, 100.0, 0.01, dtypes=F32I)]
    R["astronomy._astronomy:photons_per_band"] = lambda g: [_call(5.0, (g.random((6, 6)) < 0.7).astype(float), 0.1, 0.01, "R", dtypes=F32I)]
    R["astronomy._astronomy:magnitude_to_flux"] = lambda g: [_call(7.5, "K"), _call(g.random(4) * 10, "V", dtypes=F32)]
    R["astronomy._astronomy:flux_to_magnitude"] = lambda g: [_call(1e6, "B")]
    # ---- fourier
    # the spacing also as a 0-d and a 1-element array (what numpy.asarray(...) / numpy.diff(x)[:1] hand over): an argument like any other
    for n in ("ft", "ift"):
        R["fouriertransform:" + n] = lambda g: [_call(g.standard_normal(16), 0.1, dtypes=ALLD), _call(g.standard_normal((3, 9)), 0.2),
                                                _call(g.standard_normal(10), np.asarray(0.25)), _call(g.standard_normal((2, 7)), np.array([0.5]))]
    R["fouriertransform:rft"] = lambda g: [_call(g.standard_normal(16), 0.1, dtypes=F32I), _call(g.standard_normal((3, 8)), 0.2), _call(g.standard_normal(8), np.array([0.5]))]
    R["fouriertransform:irft"] = lambda g: [_call(g.standard_normal(9) + 1j * g.standard_normal(9), 0.1), _call(g.standard_normal(9) + 1j * g.standard_normal(9), np.array([0.5]))]
    for n in ("ft2", "ift2"):
        R["fouriertransform:" + n] = lambda g: [_call(g.standard_normal((8, 8)), 0.1, dtypes=ALLD), _call(g.standard_normal((2, 7, 7)), 0.3),
                                                _call(g.standard_normal((6, 6)), np.asarray(0.25)), _call(g.standard_normal((5, 5)), np.array([0.5]))]
    R["fouriertransform:rft2"] = lambda g: [_call(g.standard_normal((8, 8)), 0.1, dtypes=F32I), _call(g.standard_normal((6, 6)), np.array([0.5]))]
    R["fouriertransform:irft2"] = lambda g: [_call(g.standard_normal((8, 5)) + 1j * g.standard_normal((8, 5)), 0.1), _call(g.standard_normal((8, 5)) + 1j * g.standard_normal((8, 5)), np.array([0.5]))]
    # ---- functions
    R["functions._functions:gaussian2d"] = lambda g: [_call(12, 3.0), _call((8, 10), (2.0, 3.0), 2.0, (3.0, 4.5)), _call(np.array([8, 10]), np.array([2.0, 3.0]))]
    R["functions.pupil:circle"] = lambda g: [_call(3.5, 10), _call(2.0, 9, (0.5, -1.0), "corner"), _call(2.0, 9, np.array([0.5, -1.0]))]
    R["functions.zernike:phaseFromZernikes"] = lambda g: [_call(g.standard_normal(6), 12, dtypes=F32), _call(list(g.standard_normal(4)), 9, "rms", 0.3)]
    R["functions.zernike:zernike_noll"] = lambda g: [_call(5, 12), _call(8, 11, 0.4)]
    R["functions.zernike:zernike_nm"] = lambda g: [_call(3, -1, 12), _call(4, 2, 9, 0.2)]
    R["functions.zernike:zernikeRadialFunc"] = lambda g: [_call(4, 2, g.random((6, 6)), dtypes=F32)]
    R["functions.zernike:zernIndex"] = lambda g: [_call(7), _call(22)]
    R["functions.zernike:zernikeArray"] = lambda g: [_call(6, 10), _call([2, 5, 3], 9, "p2v"), _call(np.array([4, 2]), 8, "rms", 0.1)]
    R["functions.zernike:makegammas"] = lambda g: [_call(3)]
    # ---- KL
    R["functions.karhunenLoeve:rebin"] = lambda g: [_call(g.random((4, 6)), (8, 3), dtypes=F32I), _call(g.random((1, 5)), (4, 5))]
    R["functions.karhunenLoeve:stf_kolmogorov"] = lambda g: [_call(g.random(5) + 0.1, dtypes=F32), _call(0.5)]
    R["functions.karhunenLoeve:stf_vonKarman_yao"] = lambda g: [_call(g.random(5) * 0.1 + 0.01, 3.0, dtypes=F32)]
    R["functions.karhunenLoeve:stf_vonKarman"] = lambda g: [_call(g.random(5) + 0.1, 3.0, dtypes=F32), _call(np.array([0.0, 1.0]), 5.0)]
    R["functions.karhunenLoeve:gkl_radii"] = lambda g: [_call(0.2, 10)]
    R["functions.karhunenLoeve:gkl_kernel"] = lambda g: [_call(0.2, 8, KL.gkl_radii(0.2, 8)), _call(0.3, 6, KL.gkl_radii(0.3, 6), "vk", 3.0)]
    R["functions.karhunenLoeve:piston_orth"] = lambda g: [_call(7)]
    R["functions.karhunenLoeve:gkl_fcom"] = lambda g: [_call(0.2, KL.gkl_kernel(0.2, 8, KL.gkl_radii(0.2, 8)), 6)]
    R["functions.karhunenLoeve:gkl_azimuthal"] = lambda g: [_call(5, 20)]
    R["functions.karhunenLoeve:gkl_basis"] = lambda g: [_call(0.25, 8, None, 6), _call(0.25, 8, None, 12)]
    R["functions.karhunenLoeve:gkl_sfi"] = lambda g: [_call(KL.gkl_basis(0.25, 8, None, 6), 3)]
    R["functions.karhunenLoeve:radii"] = lambda g: [_call(6, 20, 0.2)]
    R["functions.karhunenLoeve:polang"] = lambda g: [_call(KL.radii(6, 20, 0.2))]
    R["functions.karhunenLoeve:set_pctr"] = lambda g: [_call(KL.gkl_basis(0.25, 8, None, 6), 16, 0)]
    R["functions.karhunenLoeve:pcgeom"] = lambda g: [_call(8, 40, 16, 0.25, 0)]

    def _setpincs(g):
        geo_r = KL.radii(8, 40, 0.25)
        p = KL.polang(geo_r)
        ax = (np.reshape(np.arange(16 * 16), (16, 16)) % 16 - 7.5) / 8.0
        return [_call(ax, np.transpose(ax).copy(), geo_r * np.cos(p), geo_r * np.sin(p), 0.25)]
    R["functions.karhunenLoeve:setpincs"] = _setpincs
    R["functions.karhunenLoeve:pol2car"] = lambda g: [_call(KL.pcgeom(8, 40, 16, 0.25, 0), g.random((8, 40)), True), _call(KL.pcgeom(8, 40, 16, 0.25, 0), g.random((8, 40)))]
    R["functions.karhunenLoeve:make_kl"] = lambda g: [_call(6, 16, 0.25, 8), _call(6, 16, 0.25, 8)]
    # ---- image processing
    R["image_processing.centroiders:correlation_centroid"] = lambda g: [
        _call(np.stack([_img(g), _img(g)]), _img(g), dtypes=F32I), _call(_img(g), _img(g), 0.2, 2), _call(_img(g, 9, 12), _img(g, 9, 12), 0.0, 3)]
    R["image_processing.centroiders:centre_of_gravity"] = lambda g: [
        _call(_img(g), dtypes=F32I), _call(_img(g), 0.3), _call(np.stack([_img(g), 2 * _img(g), _img(g)]), 0.3, dtypes=F32),
        _call(np.stack([_img(g), _img(g)]), threshold=0.2, min_threshold=0.05)]
    R["image_processing.centroiders:brightest_pixel"] = lambda g: [
        _call(_img(g), 0.3, dtypes=F32), _call(np.stack([_img(g), _img(g)]), 0.2, dtypes=F32)]
    R["image_processing.centroiders:cross_correlate"] = lambda g: [_call(_img(g), _img(g), dtypes=F32I), _call(_img(g, 8, 10), _img(g, 8, 10), 2)]
    R["image_processing.centroiders:quadCell"] = lambda g: [_call(g.random((2, 2)), dtypes=F32I), _call(g.random((4, 2, 2)))]
    R["image_processing.contrast:image_contrast"] = lambda g: [_call(_img(g), dtypes=F32I)]
    R["image_processing.contrast:rms_contrast"] = lambda g: [_call(_img(g), dtypes=F32)]
    R["image_processing.psf:azimuthal_average"] = lambda g: [_call(_img(g, 12), dtypes=F32I), _call(_img(g, 11))]
    R["image_processing.psf:encircled_energy"] = lambda g: [_call(_img(g, 16), dtypes=F32I), _call(_img(g, 16), 0.8, [7.5, 8.5], False), _call(_img(g, 16), center=np.array([8, 8]))]
    # ---- interpolation
    R["interpolation:zoom"] = lambda g: [_call(_img(g, 8), 12, dtypes=F32), _call(_img(g, 8) * (1 + 1j), (9, 13), 1), _call(_img(g, 8), np.array([5, 6]), 5)]
    R["interpolation:zoom_rbs"] = lambda g: [_call(_img(g, 8), 12, dtypes=F32), _call(_img(g, 8) * (1 - 2j), (9, 13), 5), _call(_img(g, 8), (4, 4), 2)]
    R["interpolation:binImgs"] = lambda g: [_call(_img(g, 12), 3, dtypes=F32I), _call(np.stack([_img(g, 12, 8)] * 2), 2.0)]
    # ---- optical propagation
    U = lambda g: (g.standard_normal((16, 16)) + 1j * g.standard_normal((16, 16)))
    R["opticalpropagation:angularSpectrum"] = lambda g: [_call(U(g), 1e-6, 1e-3, 1.2e-3, 5.0, dtypes=(np.complex64, np.float64)), _call(U(g), 1e-6, 1e-3, 1e-3, 0)]
    R["opticalpropagation:oneStepFresnel"] = lambda g: [_call(U(g), 1e-6, 1e-3, 5.0, dtypes=(np.complex64, np.float64))]
    R["opticalpropagation:twoStepFresnel"] = lambda g: [_call(U(g), 1e-6, 1e-3, 1.3e-3, -4.0, dtypes=(np.complex64, np.float64)), _call(U(g), 1e-6, 1e-3, 1e-3, 2.0)]
    R["opticalpropagation:lensAgainst"] = lambda g: [_call(U(g), 1e-6, 1e-3, 0.5, dtypes=(np.complex64, np.float64))]
    # ---- atmos conversions
    for n in ("cn2_to_seeing", "seeing_to_cn2", "cn2_to_r0", "r0_to_cn2", "r0_to_seeing", "seeing_to_r0"):
        R["turbulence.atmos_conversions:" + n] = lambda g: [_call(g.random(4) * 1e-13 + 1e-14, dtypes=F32), _call(0.7, 8e-7), _call(np.array(2e-13), lamda=6e-7)]
    for n in ("coherenceTime", "isoplanaticAngle", "rytov_variance"):
        R["turbulence.atmos_conversions:" + n] = lambda g: [_call(g.random(5) * 1e-14, g.random(5) * 1e4 + 10, dtypes=F32),
                                                            _call(g.random((3, 5)) * 1e-14, g.random((3, 5)) * 1e4 + 10, 6e-7, 0)]
    R["turbulence.atmos_conversions:r0_from_slopes"] = lambda g: [_call(g.standard_normal((2, 5, 40)) * 1e-6, 5e-7, 0.4, dtypes=F32)]
    R["turbulence.atmos_conversions:slope_variance_from_r0"] = lambda g: [_call(0.15, 5e-7, 0.4), _call(g.random(3) + 0.1, 5e-7, 0.4, dtypes=F32)]
    # ---- screens
    R["turbulence.infinitephasescreen:PhaseScreenVonKarman"] = lambda g: [_call(10, 0.1, 0.2, 20.0, 123, 2), _call(9, 0.2, 0.3, 10.0, random_seed=np.int64(5)), _call(8, 0.1, 0.2, 20.0, seeded=False)]
    R["turbulence.infinitephasescreen:PhaseScreenKolmogorov"] = lambda g: [_call(10, 0.1, 0.2, 20.0, 321, 2), _call(9, 0.1, 0.2, 20.0, random_seed=7, stencil_length_factor=1)]
    R["turbulence.infinitephasescreen:find_allowed_size"] = lambda g: [_call(20), _call(33), _call(34)]
    R["turbulence.phasescreen:ft_sh_phase_screen"] = lambda g: [_call(0.2, 16, 0.1, 20.0, 0.01, None, 11), _call(0.2, 16, 0.1, 20.0, 0.01, seeded=False), _call(0.2, 12, 0.1, 20.0, 0.01, np.fft.ifft2, 3)]
    R["turbulence.phasescreen:ft_phase_screen"] = lambda g: [_call(0.2, 16, 0.1, 20.0, 0.01, None, 11), _call(0.2, 16, 0.1, 20.0, 0.01, seeded=False), _call(0.3, 16, 0.1, 20.0, 0.01, seed=11)]
    R["turbulence.phasescreen:ift2"] = lambda g: [_call(U(g), 1.0), _call(U(g), 0.5, np.fft.ifft2)]
    # ---- profile compression
    hp = lambda g, n=12: (np.sort(g.random(n)) * 2e4, g.random(n) * 1e-14 + 1e-16, g.random(n) * 30 + 1)
    R["turbulence.profile_compression:equivalent_layers"] = lambda g: [_call(hp(g)[0], hp(g)[1], 4, dtypes=F32), _call(hp(g)[0], hp(g)[1], 3, hp(g)[2])]
    R["turbulence.profile_compression:optimal_grouping"] = lambda g: [_call(2, 4, hp(g)[0], hp(g)[1], seeded=False), _call(0, 3, hp(g)[0], hp(g)[1]), _call(1, 1, np.arange(0, 3000, 250), hp(g)[1])]
    R["turbulence.profile_compression:GCTM"] = lambda g: [_call(np.linspace(0, 2e4, 12), hp(g)[1], 2)]
    # ---- slope covariance
    def _cov(g):
        m = (g.random((3, 3)) < 0.7).astype(float)
        m[0, 0] = 1
        masks = [m, np.ones((3, 3))]
        return [_call(2, masks, 3.0, np.array([1.0, 1.0]), np.array([0.0, 9e4]), np.array([[0.0, 0.0], [10.0, -5.0]]), np.array([5e-7, 6e-7]),
                      2, np.array([0.0, 5e3]), np.array([0.2, 0.4]), np.array([25.0, 25.0]), 1),
                # natural guide stars off axis (one beside a laser guide star), layers above the ground
                _call(2, masks, 3.0, np.array([1.0, 1.0]), np.array([0.0, 9e4]), np.array([[7.0, 3.0], [10.0, -5.0]]), np.array([5e-7, 6e-7]),
                      2, np.array([2e3, 8e3]), np.array([0.2, 0.4]), np.array([25.0, 40.0]), 1),
                _call(2, masks, 3.0, [1.0, 1.0], [0.0, 0.0], [[-12.0, 4.0], [6.0, 9.0]], [5e-7, 5e-7], 1, [6e3], [0.15], [30.0], 1)]
    R["turbulence.slopecovariance:CovarianceMatrix"] = _cov
    pos = lambda g, n: g.uniform(-2, 2, (n, 2))
    R["turbulence.slopecovariance:wfs_covariance"] = lambda g: [_call(4, 3, pos(g, 4), pos(g, 3), 0.5, 0.4, 0.2, 25.0), _call(4, 3, pos(g, 4), pos(g, 3), 0.5, 0.4, 0.2, 25.0, True)]
    R["turbulence.slopecovariance:wfs_covariance_mpwrap"] = lambda g: [_call((4, 3, pos(g, 4), pos(g, 3), 0.5, 0.4, 0.2, 25.0))]
    R["turbulence.slopecovariance:calculate_wfs_seperations"] = lambda g: [_call(4, 3, pos(g, 4), pos(g, 3), dtypes=F32)]
    for n in ("compute_covariance_xx", "compute_covariance_yy", "compute_covariance_xy"):
        R["turbulence.slopecovariance:" + n] = lambda g: [_call(g.uniform(-3, 3, (4, 3, 2)), 0.5, 0.4, 0.2, 25.0)]
    R["turbulence.slopecovariance:structure_function_vk"] = lambda g: [_call(g.random(6) * 10, 0.2, 25.0), _call(np.array([0.0, 1.0, 2.0]), 0.2, 25.0), _call(1.5, 0.2, 25.0)]
    R["turbulence.slopecovariance:structure_function_kolmogorov"] = lambda g: [_call(g.random(6) * 10, 0.2, dtypes=F32)]
    R["turbulence.slopecovariance:calculate_structure_function"] = lambda g: [_call(g.standard_normal((30, 24)), dtypes=F32I), _call(g.standard_normal((30, 24)), 4, 2)]
    R["turbulence.slopecovariance:mirror_covariance_matrix"] = lambda g: [_call(np.tril(g.standard_normal((6, 6))).astype(np.float32))]
    def _recon(g):
        A = g.standard_normal((10, 30))
        C = (A @ A.T / 30)
        return [_call(C, 2, dtypes=F32), _call(C, 1, 1e-8)]
    R["turbulence.slopecovariance:create_tomographic_covariance_reconstructor"] = _recon
    R["turbulence.temporal_ps:calc_slope_temporalps"] = lambda g: [_call(g.standard_normal((32, 5)), dtypes=F32), _call(g.standard_normal((2, 31, 4)))]
    R["turbulence.temporal_ps:get_tps_time_axis"] = lambda g: [_call(100.0, 32), _call(150.0, 31)]
    R["turbulence.turb:phase_covariance"] = lambda g: [_call(g.random(6) * 10, 0.2, 25.0, dtypes=F32), _call(np.array([[0.0, 1.0], [2.0, 3.0]]), 0.2, 25.0), _call(0.0, 0.2, 25.0)]
    # ---- wfs
    msk = lambda g: aotools.circle(6, 12)
    R["wfs.wfslib:findActiveSubaps"] = lambda g: [_call(4, msk(g), 0.5, dtypes=F32I), _call(3, msk(g), 0.0, True)]
    R["wfs.wfslib:computeFillFactor"] = lambda g: [_call(msk(g), np.array([[0.0, 3.0], [6.0, 6.0]]), 3)]
    R["wfs.wfslib:make_subaps_2d"] = lambda g: [_call(g.standard_normal((3, 2, 5)), np.array([[1, 0, 1], [0, 1, 1], [1, 0, 0]]), dtypes=F32)]
    return R
