"""Input complex fields for the optical propagators."""
import numpy as np

KINDS = ["noise", "screen_aperture", "corner_spike", "checkerboard", "constant", "blob", "real_noise", "complex64_noise"]


def make_field(rng, N, kind):
    c = (np.arange(N) - N / 2.0)
    X, Y = np.meshgrid(c, c)
    if kind == "noise":
        return rng.standard_normal((N, N)) + 1j * rng.standard_normal((N, N))
    if kind == "screen_aperture":
        ph = np.cumsum(np.cumsum(rng.standard_normal((N, N)), 0), 1) * 0.05
        ap = ((X + 0.5) ** 2 + (Y + 0.5) ** 2 <= (N / 2.5) ** 2).astype(float)
        return ap * np.exp(1j * ph)
    if kind == "corner_spike":
        U = np.zeros((N, N), dtype=complex)
        U[int(rng.choice([0, N - 1])), int(rng.choice([0, N - 1]))] = 1 + 2j
        return U
    if kind == "checkerboard":
        return ((-1.0) ** (np.add.outer(np.arange(N), np.arange(N)))).astype(complex) * (0.3 - 1j)
    if kind == "constant":
        return np.full((N, N), 2.0 - 0.5j)
    if kind == "blob":
        x0, y0 = rng.uniform(-N / 4, N / 4, 2)
        w = rng.uniform(1.0, N / 6 + 1.0)
        return np.exp(-((X - x0) ** 2 + 2 * (Y - y0) ** 2) / w ** 2) * np.exp(1j * 0.3 * X)
    if kind == "real_noise":
        return rng.standard_normal((N, N))
    if kind == "complex64_noise":
        return (rng.standard_normal((N, N)) + 1j * rng.standard_normal((N, N))).astype(np.complex64)
    raise ValueError(kind)
