"""Generators of CovarianceMatrix configurations (hostile classes first, then random)."""
import numpy as np


def _mask(kind, n, rng):
    m = np.zeros((n, n))
    if kind == "full":
        m[:] = 1
    elif kind == "L":
        m[:, 0] = 1
        m[-1, :] = 1
    elif kind == "single":
        m[rng.integers(n), rng.integers(n)] = 1
    elif kind == "row":
        m[rng.integers(n), :] = 1
    elif kind == "col":
        m[:, rng.integers(n)] = 1
    elif kind == "corner":
        m[: max(1, n // 2), : max(1, (n + 1) // 2)] = 1
    elif kind == "circle":
        c = np.arange(n) + 0.5 - n / 2.0
        x, y = np.meshgrid(c, c)
        m[(x * x + y * y) <= (n / 2.0) ** 2] = 1
    else:  # random
        m = (rng.random((n, n)) < rng.uniform(0.3, 0.9)).astype(float)
    if m.sum() == 0:
        m[rng.integers(n), rng.integers(n)] = 1
    return m


MASK_KINDS = ["full", "L", "single", "row", "col", "corner", "circle", "random", "random", "random"]


def make_config(rng, n_wfs=None, max_n=5, cls="random"):
    """Return a dict with the constructor arguments of CovarianceMatrix."""
    D = float(rng.choice([1.0, 4.2, 8.0, 39.0]))
    if n_wfs is None:
        n_wfs = int(rng.choice([1, 1, 2, 2, 3, 4]))
    masks, ds, Hs, pos, lam = [], [], [], [], []
    same_geom = cls in ("same_geometry",)
    n0 = int(rng.integers(1, max_n + 1))
    for w in range(n_wfs):
        n = n0 if (same_geom or rng.random() < 0.5) else int(rng.integers(1, max_n + 1))
        kind = {"asym": str(rng.choice(["L", "random", "corner", "single", "row"])),
                "symmetric": str(rng.choice(["full", "circle"]))}.get(cls, str(rng.choice(MASK_KINDS)))
        masks.append(_mask(kind, n, rng))
        ds.append(D / n)
        if cls == "ngs_onaxis":
            Hs.append(0.0)
            pos.append([0.0, 0.0])
        else:
            Hs.append(float(rng.choice([0.0, 0.0, 90000.0, 15000.0])))
            if cls == "onaxis" or rng.random() < 0.2:
                pos.append([0.0, 0.0])
            else:
                pos.append([float(v) for v in rng.uniform(-40, 40, 2)])
        lam.append(float(rng.choice([500e-9, 589e-9, 1.65e-6])) if cls != "same_lambda" else 500e-9)
    n_layers = int(rng.choice([1, 1, 2, 3, 4]))
    alts = [float(a) for a in rng.choice([0.0, 0.0, 250.0, 4000.0, 9000.0, 12000.0], n_layers)]
    r0s = [float(10 ** rng.uniform(-1.3, 0.3)) for _ in range(n_layers)]
    L0s = [float(rng.choice([1.0, 10.0, 25.0, 100.0, 1000.0, 2e5, 1e6])) for _ in range(n_layers)]
    return {"n_wfs": n_wfs, "pupil_masks": masks, "telescope_diameter": D, "subap_diameters": ds,
            "gs_altitudes": Hs, "gs_positions": pos, "wfs_wavelengths": lam, "n_layers": n_layers,
            "layer_altitudes": alts, "layer_r0s": r0s, "layer_L0s": L0s, "class": cls}


def hostile_configs(rng, max_n=5):
    """Deterministic list of the classes that must always be present."""
    out = []
    for cls in ("ngs_onaxis", "asym", "asym", "onaxis", "symmetric", "same_geometry", "random"):
        for nw in (1, 2, 3):
            out.append(make_config(rng, n_wfs=nw, max_n=max_n, cls=cls))
    # mixed NGS / LGS looking through a layer at altitude, different sub-aperture sizes
    c = make_config(rng, n_wfs=2, max_n=max_n, cls="asym")
    c["gs_altitudes"] = [0.0, 15000.0]
    c["layer_altitudes"] = [9000.0] * c["n_layers"]
    c["class"] = "mixed_ngs_lgs"
    out.append(c)
    # opposite off-axis directions
    c = make_config(rng, n_wfs=2, max_n=max_n, cls="random")
    c["gs_positions"] = [[25.0, -10.0], [-25.0, 10.0]]
    c["layer_altitudes"] = [8000.0] * c["n_layers"]
    c["class"] = "opposite_offaxis"
    out.append(c)
    out.append(layer_above_gs(rng, max_n))
    out.append(nearly_equal_sensors(rng, max_n))
    return out


def layer_above_gs(rng, max_n=5, n_wfs=None):
    """Low (Rayleigh) laser guide stars in different directions with a layer above them: the cone factor 1 - h/H is negative."""
    c = make_config(rng, n_wfs=n_wfs or int(rng.choice([2, 3])), max_n=max_n, cls="asym")
    c["gs_altitudes"] = [float(rng.choice([10000.0, 15000.0])) for _ in range(c["n_wfs"])]
    if rng.random() < 0.5:
        c["gs_altitudes"][-1] = 0.0
    c["gs_positions"] = [[float(v) for v in rng.uniform(-30, 30, 2)] for _ in range(c["n_wfs"])]
    c["layer_altitudes"] = [float(a) for a in ([20000.0, 0.0, 18000.0, 12000.0][:c["n_layers"]])]
    c["class"] = "layer_above_gs"
    return c


def nearly_equal_sensors(rng, max_n=5, n_wfs=None):
    """Sensors whose guide-star altitudes / sub-aperture sizes differ only in the 6th-7th digit (not equal, not clearly different)."""
    c = make_config(rng, n_wfs=n_wfs or int(rng.choice([2, 3])), max_n=max_n, cls="same_geometry")
    u = rng.random()
    H = 90000.0
    c["gs_altitudes"] = [H + 4.0 * w if u < 0.6 else H for w in range(c["n_wfs"])]
    if u >= 0.4:
        c["subap_diameters"] = [d * (1 + 3e-7 * w) for w, d in enumerate(c["subap_diameters"])]
    c["gs_positions"] = [[float(v) for v in rng.uniform(-30, 30, 2)] for _ in range(c["n_wfs"])]
    c["layer_altitudes"] = [float(a) for a in ([12000.0, 0.0, 4000.0, 9000.0][:c["n_layers"]])]
    c["class"] = "nearly_equal_sensors"
    return c


def construct(aotools, cfg, threads=1, as_arrays=False):
    f = (lambda v: np.array(v)) if as_arrays else (lambda v: v)
    return aotools.CovarianceMatrix(
        cfg["n_wfs"], cfg["pupil_masks"], cfg["telescope_diameter"], f(cfg["subap_diameters"]),
        f(cfg["gs_altitudes"]), f(cfg["gs_positions"]), f(cfg["wfs_wavelengths"]), cfg["n_layers"],
        f(cfg["layer_altitudes"]), f(cfg["layer_r0s"]), f(cfg["layer_L0s"]), threads)


def summary(cfg):
    return {"class": cfg.get("class"), "n_wfs": cfg["n_wfs"],
            "masks": ["".join("|" + "".join(str(int(v)) for v in row) for row in m) for m in cfg["pupil_masks"]],
            "D": cfg["telescope_diameter"], "d": [float(v) for v in cfg["subap_diameters"]], "gs_alt": cfg["gs_altitudes"],
            "gs_pos": cfg["gs_positions"], "lambda": [float(v) for v in cfg["wfs_wavelengths"]],
            "param_dtype": str(np.asarray(cfg["wfs_wavelengths"]).dtype), "n_layers": cfg["n_layers"],
            "layers": list(zip(cfg["layer_altitudes"], cfg["layer_r0s"], cfg["layer_L0s"]))}


def key(cfg):
    return repr(summary(cfg))


def kill_pools():
    """The library never closes the pools it creates: terminate leaked workers."""
    import multiprocessing
    for p in multiprocessing.active_children():
        try:
            p.terminate()
            p.join(1)
        except Exception:
            pass
