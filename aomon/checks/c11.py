"""C11 -- propagators form a group, agree with each other and with theory."""
import numpy as np
from scipy import special

from aomon.core import pure_call
from aomon.workloads import fields

LEVEL = "exploration"
TECHNIQUE = "relation monitor over programs of propagation steps (group laws, magnification round trips, cross-propagator agreement) and closed-form reference monitor (off-axis / tilted Gaussian beams, Airy pattern) on the real propagators"
LEVEL_TEXT = ("Programs of 2-6 angular-spectrum steps whose distances (both signs) sum to a common total must agree with the single step and "
              "with each other; zero distance and +z/-z pairs give the input; propagating with magnification m and back with 1/m recovers "
              "the input up to a constant phase (an algebraic identity, checked to rounding on arbitrary fields); grids finer than the wavelength and problems stated in nm..pm units (steps down to 1e-12) are included and a step must not depend on the length unit. Pairs of propagators are "
              "compared on coinciding grids with off-axis, asymmetric fields so that flips, transposes and conjugations show; all four are "
              "compared with the analytic off-axis, tilted Gaussian beam (amplitude, width, curvature, Gouy phase, position) on beams that "
              "are resolved by construction in every plane touched, and the lens with the Airy pattern. Fields stored in single precision (complex64, float32) obey the inverse law and give the result of the same samples in double precision, to the rounding of the returned dtype. Exploration over programs.")
LEVEL_NOTE = "Trusted: closed-form Gaussian beam in the e^{+ik r^2/2z} convention of the module (no e^{ikz}); scipy J1. Sampling margins are part of the generator, no case is skipped as unresolved."
RULE = "case = (clause, N, wavelength, spacing(s), distance(s), magnification, field / beam parameters); non-trivial when the field is not point-symmetric; distinct by parameters"
ASSUMPTIONS = ["even square grids"]
REQUIRED = ["opticalpropagation.py:angularSpectrum", "opticalpropagation.py:oneStepFresnel", "opticalpropagation.py:twoStepFresnel", "opticalpropagation.py:lensAgainst"]
REQUIRED_COUNTERS = ["programs", "round_trips", "cross_pairs", "gaussian_beams", "airy_patterns"]


def plan(tier, seed):
    return [{"shard": i, "programs": 4 if tier == "quick" else 2500, "beams": 3 if tier == "quick" else 900,
             "airy": 1 if (tier == "quick" and i < 6) else (0 if tier == "quick" else 12)} for i in range(16)]


def beam(N, d, w0, x0, y0, lam, z, kx=0.0, ky=0.0):
    """Analytic paraxial propagation (without e^{ikz}) of exp(-((x-x0)^2+(y-y0)^2)/w0^2 + i(kx x + ky y))."""
    c = (np.arange(N) - N / 2.0) * d
    X, Y = np.meshgrid(c, c)            # x along axis 1
    zR = np.pi * w0 ** 2 / lam
    q = 1 + 1j * z / zR
    xc = x0 + 1j * kx * w0 ** 2 / 2.0
    yc = y0 + 1j * ky * w0 ** 2 / 2.0
    pref = np.exp(1j * (kx * x0 + ky * y0) - (kx ** 2 + ky ** 2) * w0 ** 2 / 4.0)
    return pref * np.exp(-((X - xc) ** 2 + (Y - yc) ** 2) / (w0 ** 2 * q)) / q


def upto_phase(a, b):
    """Remove the best constant phase between a and b (a ~ b e^{i phi})."""
    s = np.vdot(b, a)
    return a * np.exp(-1j * np.angle(s)) if abs(s) > 0 else a


def check_group(ctx, op, rng):
    N = int(rng.choice([8, 16, 32, 64, 9, 15, 33]))         # the group laws are algebraic: odd grids too
    lam = float(10 ** rng.uniform(-6.5, -5))
    d = float(10 ** rng.uniform(-4, -2))
    regime = float(rng.random())
    if regime < 0.2:
        d = lam * float(rng.uniform(0.12, 0.68))          # sampling finer than the wavelength: the paraxial operator is the same group
    elif regime < 0.4:
        cu0 = float(10 ** rng.uniform(-10, -3))            # the same problem in other length units (nm .. pm): distances down to 1e-12
        lam, d = lam * cu0, d * cu0
    zc = N * d * d / lam                      # natural distance scale of the grid
    total = float(rng.choice([-1, 1]) * zc * 10 ** rng.uniform(-1, 1))
    kind = fields.KINDS[int(rng.integers(0, 6))]
    U = fields.make_field(rng, N, kind).astype(complex)
    mx = float(np.abs(U).max())
    nst = int(rng.integers(2, 7))
    parts = rng.standard_normal(nst) * abs(total)
    parts = parts - parts.sum() / nst + total / nst           # both signs, sums to `total`
    wit = {"N": N, "wvl": lam, "d": d, "total": total, "steps": parts.tolist(), "field": kind}
    ctx.count("programs")
    ctx.case("as_program", key=("prog", N, lam, d, total, tuple(parts.tolist())), nontrivial=True, sample=wit)
    single = pure_call(ctx, "angularSpectrum", op.angularSpectrum, U, lam, d, d, total)
    V = U
    for z in parts:
        V = op.angularSpectrum(V, lam, d, d, float(z))
    arg = np.pi * lam * (np.abs(parts).sum() + abs(total)) / (4 * d * d)     # largest transfer-function phase handled
    tol = (1e-12 + 8 * 2.3e-16 * arg) * mx * 50
    ctx.close("AS_composition", V, single, tol, "angularSpectrum:distances_do_not_add", wit, scale=mx)
    # only ratios of lengths matter: the same step with every length in other units is the same array
    cu = float(10 ** rng.uniform(-9, 3))
    scaled = op.angularSpectrum(U, lam * cu, d * cu, d * cu, total * cu)
    ctx.close("AS_unit_invariance", scaled, single, (1e-12 + 16 * 2.3e-16 * np.pi * lam * abs(total) / (4 * d * d)) * mx * 50,
              "angularSpectrum:depends_on_absolute_length_scale", dict(wit, unit_factor=cu), scale=mx)
    # another split of the same total
    h = float(rng.uniform(-2, 3)) * total
    W = op.angularSpectrum(op.angularSpectrum(U, lam, d, d, h), lam, d, d, total - h)
    ctx.close("AS_two_way_split", W, single, (1e-12 + 8 * 2.3e-16 * np.pi * lam * (abs(h) + abs(total - h) + abs(total)) / (4 * d * d)) * mx * 50,
              "angularSpectrum:distances_do_not_add", wit, scale=mx)
    # zero distance and inverse
    Z0 = op.angularSpectrum(U, lam, d, d, 0)
    ctx.check(np.array_equal(Z0, U), "angularSpectrum:zero_distance_not_identity", "z = 0 does not return the input", wit)
    Z0f = op.angularSpectrum(U, lam, d, d, 0.0)
    ctx.check(np.array_equal(Z0f, U), "angularSpectrum:zero_distance_not_identity", "z = 0.0 does not return the input", wit)
    back = op.angularSpectrum(single, lam, d, d, -total)
    ctx.close("AS_inverse", back, U, (1e-12 + 8 * 2.3e-16 * 2 * np.pi * lam * abs(total) / (4 * d * d)) * mx * 50, "angularSpectrum:minus_z_does_not_undo_z", wit, scale=mx)
    # a field stored in single precision (camera frames, complex64 / float32 arrays) is an input field like any other: the samples are
    # exact numbers, and the laws hold to the rounding of the precision the propagator returns (complex128 on this code base)
    for U32 in (U.astype(np.complex64), np.abs(U).astype(np.float32)):
        s32 = np.asarray(op.angularSpectrum(U32, lam, d, d, total))
        epsr = float(np.finfo(s32.dtype).eps) / 2.2e-16 if s32.dtype.kind in "fc" else 1.0
        t32 = (1e-12 + 8 * 2.3e-16 * 2 * np.pi * lam * abs(total) / (4 * d * d)) * mx * 50 * max(1.0, epsr)
        b32 = op.angularSpectrum(s32, lam, d, d, -total)
        w32 = dict(wit, input_dtype=str(U32.dtype), output_dtype=str(s32.dtype))
        ctx.count("single_precision_fields")
        ctx.close("AS_inverse_single_precision_input", b32, U32.astype(complex), t32, "angularSpectrum:minus_z_does_not_undo_z:single_precision_field", w32, scale=mx)
        ctx.close("AS_same_samples_other_dtype", s32, op.angularSpectrum(U32.astype(complex), lam, d, d, total), t32,
                  "angularSpectrum:result_depends_on_container_dtype", w32, scale=mx)
    # magnification m then 1/m: input up to a constant phase (algebraic identity, any field)
    m = float(10 ** rng.uniform(-0.7, 0.7))
    z = float(rng.choice([-1, 1]) * zc * 10 ** rng.uniform(-1, 1))
    ctx.count("round_trips")
    fwd = op.angularSpectrum(U, lam, d, d * m, z)
    bk = op.angularSpectrum(fwd, lam, d * m, d, -z)
    w2 = dict(wit, m=m, z=z)
    ctx.case("as_round_trip", key=("rt", N, lam, d, m, z, kind), nontrivial=True, sample=w2)
    k = 2 * np.pi / lam
    argq = k / 2 * abs(1 - m) / abs(z) * (N * d / 2) ** 2 * 2 * (1 + m * m) + np.pi * lam * abs(z) / (4 * d * d) * (1 + 1 / m)
    ctx.close("AS_magnification_round_trip", upto_phase(bk, U), U, (1e-11 + 16 * 2.3e-16 * argq) * mx * 50, "angularSpectrum:magnification_round_trip", w2, scale=mx)
    ctx.close("AS_round_trip_modulus", np.abs(bk), np.abs(U), (1e-11 + 16 * 2.3e-16 * argq) * mx * 50, "angularSpectrum:magnification_round_trip", w2, scale=mx)


def resolved_params(rng, N=None):
    N = int(rng.choice([128, 256])) if N is None else N
    lam = float(10 ** rng.uniform(-6.5, -5.3))
    d1 = float(10 ** rng.uniform(-4, -2.5))
    # window half-width 8..11 w0; beam centre within 1 w0 (+ <= 0.25 w0 of tilt walk-off): at least 5.5 w of clearance in
    # every plane a propagator touches, including output planes with spacing 0.75..1.5 d1 (tail at the edge < 1e-13)
    w0 = N * d1 / float(rng.uniform(16, 22))
    x0, y0 = [float(v) for v in rng.uniform(-1.0, 1.0, 2) * w0]
    if abs(x0) < 0.2 * w0:
        x0 = 0.7 * w0
    if abs(y0 - x0) < 0.2 * w0:
        y0 = -0.5 * w0
    # tilt: at most a small fraction of the grid bandwidth, keeps the beam inside every window
    kx, ky = [float(v) for v in rng.uniform(-1, 1, 2) * 0.08 * np.pi / d1 / 4]
    return N, lam, d1, w0, x0, y0, kx, ky


def check_beams(ctx, op, rng):
    N, lam, d1, w0, x0, y0, kx, ky = resolved_params(rng)
    zc = N * d1 * d1 / lam
    U0 = beam(N, d1, w0, x0, y0, lam, 0.0, kx, ky)
    base = {"N": N, "wvl": lam, "d1": d1, "w0": w0, "x0": x0, "y0": y0, "kx": kx, "ky": ky}
    ctx.count("gaussian_beams")
    k = 2 * np.pi / lam
    # --- angular spectrum, unit magnification, both signs
    z = float(rng.choice([-1, 1]) * zc * rng.uniform(0.05, 0.6))
    ref = beam(N, d1, w0, x0, y0, lam, z, kx, ky)
    got = pure_call(ctx, "angularSpectrum", op.angularSpectrum, U0, lam, d1, d1, z)
    ctx.case("gauss_AS_unit", key=("gAS1", N, lam, d1, w0, x0, y0, kx, z), nontrivial=True, sample=dict(base, z=z))
    ctx.close("AS_vs_gaussian_beam", got, ref, 1e-6, "angularSpectrum:analytic_beam:unit_magnification", dict(base, z=z))
    # --- angular spectrum with magnification
    m = float(rng.choice([rng.uniform(0.75, 0.95), rng.uniform(1.05, 1.3)]))
    c = float(rng.uniform(1.0, 2.0))
    zm = float(rng.choice([-1, 1]) * c * abs(1 - m) * zc)
    refm = beam(N, d1 * m, w0, x0, y0, lam, zm, kx, ky)
    gotm = op.angularSpectrum(U0, lam, d1, d1 * m, zm)
    wm = dict(base, m=m, z=zm)
    ctx.case("gauss_AS_mag", key=("gASm", N, lam, d1, w0, x0, y0, kx, m, zm), nontrivial=True, sample=wm)
    ctx.close("AS_mag_vs_gaussian_beam", upto_phase(gotm, refm), refm, 2e-5, "angularSpectrum:analytic_beam:magnification", wm)
    # the analytic solution fixes the phase of the field too (Gouy phase): no constant offset
    ctx.close("AS_mag_vs_gaussian_beam_constant_phase", np.angle(np.vdot(refm, gotm)), 0.0, 1e-6,
              "angularSpectrum:analytic_beam:gouy_phase", wm)
    # --- magnification within 1e-5 of one (but not one): still the exact scaled propagation
    mn = 1.0 + float(rng.choice([-1, 1])) * float(10 ** rng.uniform(-8, -5))
    zn = float(rng.choice([-1, 1]) * zc * rng.uniform(0.05, 0.5))
    refn = beam(N, d1 * mn, w0, x0, y0, lam, zn, kx, ky)
    gotn = op.angularSpectrum(U0, lam, d1, d1 * mn, zn)
    wn = dict(base, m=mn, z=zn)
    ctx.case("gauss_AS_near_unit_mag", key=("gASn", N, lam, d1, w0, x0, mn, zn), nontrivial=True, sample=wn)
    ctx.close("AS_near_unit_mag_vs_gaussian_beam", upto_phase(gotn, refn), refn, 1e-9, "angularSpectrum:analytic_beam:magnification_near_one", wn)
    got2n = op.twoStepFresnel(U0, lam, d1, d1 * mn, zn)
    ctx.close("twoStep_near_unit_mag_vs_AS", upto_phase(got2n, gotn), gotn, 1e-7, "twoStepFresnel_vs_angularSpectrum:magnification_near_one", wn)
    # --- two-step at exactly unit magnification: two half steps; the intermediate plane (spacing lambda|z|/(2 N d1))
    #     resolves the beam for |z| ~ 2 N d1^2 / lambda
    zu = float(rng.choice([-1, 1]) * 2.0 * zc * rng.uniform(0.9, 1.1))
    refu = beam(N, d1, w0, x0, y0, lam, zu, kx, ky)
    gotu = op.twoStepFresnel(U0, lam, d1, d1, zu)
    wu = dict(base, m=1.0, z=zu)
    ctx.case("gauss_two_step_unit_mag", key=("g2u", N, lam, d1, w0, x0, zu), nontrivial=True, sample=wu)
    # discretisation error of the two half steps: measured up to 1.0e-6 for the narrowest beams on N = 128 (median 8e-11);
    # a wrong orientation / conjugation gives an error of order one
    ctx.close("twoStep_unit_mag_vs_gaussian_beam", gotu, refu, 2e-5, "twoStepFresnel:analytic_beam:m=1" + (":z<0" if zu < 0 else ":z>0"), wu)
    ctx.close("twoStep_unit_mag_vs_AS", gotu, op.angularSpectrum(U0, lam, d1, d1, zu), 2e-5, "twoStepFresnel_vs_angularSpectrum:m=1" + (":z<0" if zu < 0 else ":z>0"), wu)
    # --- two-step on the same output grid
    ctx.count("cross_pairs")
    got2 = pure_call(ctx, "twoStepFresnel", op.twoStepFresnel, U0, lam, d1, d1 * m, zm)
    mcls = "m<1" if m < 1 else "m>1"
    ctx.case("gauss_two_step", key=("g2", N, lam, d1, w0, x0, y0, kx, m, zm), nontrivial=True)
    ctx.close("twoStep_vs_gaussian_beam", got2, refm, 1e-6, "twoStepFresnel:analytic_beam:" + mcls + (":z<0" if zm < 0 else ":z>0"), wm)
    ctx.close("twoStep_vs_AS", got2, upto_phase(gotm, got2), 1e-6, "twoStepFresnel_vs_angularSpectrum:" + mcls, wm)
    # --- one-step: output spacing lambda z /(N d1)
    c1 = float(rng.uniform(1.0, 1.5))
    z1 = float(rng.choice([-1, 1]) * c1 * zc)
    d2 = lam * z1 / (N * d1)                      # signed: for z < 0 the one-step output grid runs backwards
    got1 = pure_call(ctx, "oneStepFresnel", op.oneStepFresnel, U0, lam, d1, z1)
    ref1 = beam(N, d2, w0, x0, y0, lam, z1, kx, ky)
    w1 = dict(base, z=z1, d2=d2)
    ctx.case("gauss_one_step", key=("g1", N, lam, d1, w0, x0, y0, kx, z1), nontrivial=True, sample=w1)
    ctx.close("oneStep_vs_gaussian_beam", got1, ref1, 1e-6, "oneStepFresnel:analytic_beam" + (":z<0" if z1 < 0 else ":z>0"), w1)
    if z1 > 0:
        ctx.count("cross_pairs")
        a1 = op.angularSpectrum(U0, lam, d1, d2, z1)
        ctx.close("oneStep_vs_AS_same_grid", got1, upto_phase(a1, got1), 1e-3, "oneStepFresnel_vs_angularSpectrum", w1)
        t1 = op.twoStepFresnel(U0, lam, d1, d2, z1)
        ctx.close("oneStep_vs_twoStep_same_grid", got1, t1, 1e-3, "oneStepFresnel_vs_twoStepFresnel", w1)
    # --- lens: focal plane of the beam with the lens phase applied by hand
    f = float(rng.choice([-1, 1]) * c1 * zc)
    ctx.count("cross_pairs")
    c_ = (np.arange(N) - N / 2.0) * d1
    X, Y = np.meshgrid(c_, c_)
    lens_in = U0 * np.exp(1j * k / (2 * f) * (X ** 2 + Y ** 2))   # cancels the lens: lensAgainst(V) == oneStep(V e^{-ik r^2/2f})
    gl = pure_call(ctx, "lensAgainst", op.lensAgainst, lens_in, lam, d1, f)
    wl = dict(base, f=f)
    ctx.case("lens_vs_one_step", key=("gl", N, lam, d1, w0, x0, kx, f), nontrivial=True, sample=wl)
    ctx.close("lens_vs_oneStep", gl, op.oneStepFresnel(U0, lam, d1, f), 1e-9, "lensAgainst_vs_oneStepFresnel", wl)
    ctx.close("lens_vs_gaussian_beam", gl, beam(N, lam * f / (N * d1), w0, x0, y0, lam, f, kx, ky), 1e-6, "lensAgainst:analytic_beam", wl)
    # --- arbitrary (asymmetric) field: two-step vs angular spectrum is algebraic-close, orientation included
    Uf = fields.make_field(rng, 64, "blob").astype(complex) + 0.3 * fields.make_field(rng, 64, "screen_aperture")
    dd = float(10 ** rng.uniform(-4, -3))
    mm = float(rng.choice([0.8, 1.25, 0.9, 1.1]))
    zz = float(rng.choice([-1, 1]) * rng.uniform(1.0, 2.0) * abs(1 - mm) * 64 * dd * dd / lam)
    A = op.angularSpectrum(Uf, lam, dd, dd * mm, zz)
    T = op.twoStepFresnel(Uf, lam, dd, dd * mm, zz)
    ctx.count("cross_pairs")
    sc = float(np.abs(A).max())
    ctx.case("orientation_generic_field", key=("of", lam, dd, mm, zz), nontrivial=True)
    flip = np.roll(T[::-1, ::-1], 1, axis=(0, 1))
    e_same = float(np.abs(upto_phase(T, A) - A).max()) / sc
    e_flip = float(np.abs(upto_phase(flip, A) - A).max()) / sc
    e_tr = float(np.abs(upto_phase(T.T, A) - A).max()) / sc
    ctx.metric("twoStep_vs_AS_generic_field_relerr", e_same)
    ctx.check(e_same <= min(e_flip, e_tr), "twoStepFresnel_vs_angularSpectrum:orientation" + (":unit_magnification" if mm == 1.0 else ""),
              "two-step agrees with the angular spectrum better when flipped (%.3g) / transposed (%.3g) than as returned (%.3g)" % (e_flip, e_tr, e_same),
              {"wvl": lam, "d": dd, "m": mm, "z": zz})



def check_airy(ctx, op, rng):
    N = 512
    R = int(rng.integers(40, 121))
    d1 = float(10 ** rng.uniform(-4, -2))
    lam = float(10 ** rng.uniform(-6.5, -5.5))
    f = float(rng.choice([-1, 1]) * 10 ** rng.uniform(-1, 1.5))
    c = (np.arange(N) - N / 2.0)
    X, Y = np.meshgrid(c, c)
    ap = ((X ** 2 + Y ** 2) <= R * R).astype(complex)
    out = pure_call(ctx, "lensAgainst", op.lensAgainst, ap, lam, d1, f)
    I = np.abs(out) ** 2
    ctx.count("airy_patterns")
    wit = {"N": N, "aperture_radius_px": R, "d1": d1, "wvl": lam, "f": f}
    ctx.case("airy", key=("airy", R, d1, lam, f), nontrivial=True, sample=wit)
    d2 = abs(lam * f / (N * d1))
    rr = np.sqrt(X ** 2 + Y ** 2) * d2
    x = 2 * np.pi * (R * d1) * rr / (lam * abs(f))
    with np.errstate(all="ignore"):
        airy = np.where(x == 0, 1.0, (2 * special.j1(x) / x) ** 2)
    peak = (np.pi * (R * d1) ** 2 / (lam * abs(f))) ** 2            # |area / (lambda f)|^2
    sel = rr <= 4 * 1.22 * lam * abs(f) / (2 * R * d1)
    ctx.close("airy_profile", I[sel] / peak, airy[sel], 0.03, "lensAgainst:airy_pattern", wit)
    ctx.check(np.unravel_index(np.argmax(I), I.shape) == (N // 2, N // 2), "lensAgainst:airy_peak_position", "peak not at the array centre", wit)


def run(ctx, spec):
    import aotools
    op = aotools.opticalpropagation
    rng = ctx.rng
    for i in range(spec["programs"]):
        check_group(ctx, op, rng)
    for i in range(spec["beams"]):
        check_beams(ctx, op, rng)
    for i in range(spec["airy"]):
        check_airy(ctx, op, rng)
