"""C02 -- the tomographic reconstructor is the minimum-variance linear estimator."""
import numpy as np

from aomon.core import pure_call
from aomon.workloads import slopecfg

LEVEL = "exploration"
TECHNIQUE = "post-condition monitor on the real reconstructor functions: normal equations on the retained spectral subspace, residual-variance comparison against perturbed competitors, duplicate-sensor end-to-end histories"
LEVEL_TEXT = ("For synthetic PSD matrices (Wishart, low rank + noise floor, prescribed condition numbers 10..1e6, float32 / float64, every "
              "partition) and conditioning values placed inside a gap of the actual spectrum, the returned R must satisfy R Coff = Con,off on "
              "the retained subspace, carry no weight outside it, and have residual variance no larger than random perturbed competitors "
              "and than an independently computed optimum. End to end, matrices from the covariance builder go through the class method "
              "(must equal the free function on the object's current matrix) in multi-step histories that re-make the matrix after the "
              "configuration changed, including an on-axis sensor duplicating an off-axis one (R must be the selector, to 2 eps32 cond), one step per shard through a real 2-worker pool, and a 520-slope single-precision system with default zero conditioning. Exploration.")
LEVEL_NOTE = "Trusted: float64 eigendecomposition (NumPy). Tolerances scale with eps of the input dtype times the retained condition number."
RULE = "case = (matrix family, size, partition, dtype, conditioning) or end-to-end history; non-trivial when there are >= 2 off-axis slopes; distinct by matrix digest and parameters"
ASSUMPTIONS = ["the conditioning value lies in a gap of the spectrum of C_off,off (so the retained subspace is unambiguous)",
               "zero conditioning is only judged on well-conditioned C_off,off, as the statement says"]
REQUIRED = ["slopecovariance.py:create_tomographic_covariance_reconstructor", "slopecovariance.py:CovarianceMatrix.make_tomographic_reconstructor",
            "slopecovariance.py:CovarianceMatrix.make_covariance_matrix"]
REQUIRED_COUNTERS = ["conditioning_zero", "conditioning_inside_spectral_gap", "synthetic_matrices", "end_to_end_histories", "duplicate_sensor_cases", "competitors_compared"]


def plan(tier, seed):
    return [{"shard": i, "n_syn": 20 if tier == "quick" else 6000, "n_e2e": 2 if tier == "quick" else 300} for i in range(16)]


def synth(rng, n, kind, dtype):
    if kind == "wishart":
        A = rng.standard_normal((n, 3 * n))
        C = A @ A.T / (3 * n)
    elif kind == "lowrank":
        r = int(rng.integers(1, max(2, n // 2)))
        A = rng.standard_normal((n, r))
        C = A @ A.T + 10 ** rng.uniform(-8 if dtype == np.float64 else -5, -4 if dtype == np.float64 else -3.5) * np.eye(n) * r
    else:
        cond = 10 ** rng.uniform(1, 6 if dtype == np.float64 else 4)
        Q, _ = np.linalg.qr(rng.standard_normal((n, n)))
        ev = np.exp(np.linspace(0, -np.log(cond), n))
        # a few clusters separated by gaps
        ev = np.sort(ev * np.where(np.arange(n) < int(rng.integers(1, n + 1)), 1.0, 10 ** rng.uniform(-4.5, -3.2)))[::-1]
        C = (Q * ev) @ Q.T
    C = 0.5 * (C + C.T) * 10 ** rng.uniform(-14, 2)
    return C.astype(dtype)


def judge(ctx, R, C, n_on, rcond, wit, mech):
    """The post-condition: normal equations on the retained subspace, no weight elsewhere, optimality."""
    C64 = np.asarray(C, dtype=np.float64)
    k = 2 * n_on
    Con, Coo, Cnn = C64[:k, k:], C64[k:, k:], C64[:k, :k]
    R = np.asarray(R, dtype=np.float64)
    if not ctx.check(R.shape == Con.shape, mech + ":shape", "R has shape %s, expected %s" % (R.shape, Con.shape), wit):
        return
    if not ctx.check(bool(np.isfinite(R).all()), mech + ":nonfinite", "R has non-finite entries", wit):
        return
    ev, V = np.linalg.eigh(0.5 * (Coo + Coo.T))
    lam_max = float(ev.max())
    keep = ev > rcond * lam_max
    if rcond == 0:
        keep = ev > 0
    Vk, lk = V[:, keep], ev[keep]
    eps = float(np.finfo(np.asarray(C).dtype).eps) if np.asarray(C).dtype.kind == "f" else 2.2e-16
    cond_k = lam_max / float(lk.min())
    scale = float(np.abs(Con).max()) + 1e-300
    tol = 50 * eps * cond_k * scale * np.sqrt(Coo.shape[0])
    # normal equations on the retained subspace
    lhs = R @ Coo @ Vk
    rhs = Con @ Vk
    ctx.metric("normal_eq_residual/(eps cond |Con|)", float(np.abs(lhs - rhs).max() / (eps * cond_k * scale)))
    ctx.close("R.Coff=Con,off on retained subspace", lhs, rhs, tol, mech + ":normal_equations", wit, scale=scale)
    # no weight outside the retained subspace
    if (~keep).any():
        Vd = V[:, ~keep]
        w = R @ Vd
        rscale = float(np.abs(R).max()) + 1e-300
        ctx.close("R(I-P)=0", w, np.zeros_like(w), 50 * eps * cond_k * rscale * np.sqrt(Coo.shape[0]) + 1e-300, mech + ":weight_outside_retained_subspace", wit, scale=rscale)
    # optimality: residual variance vs the independent optimum and vs perturbed competitors (rows in the retained subspace)
    Pk = Vk @ Vk.T
    Cr = Pk @ Coo @ Pk            # what an estimator restricted to the retained subspace sees

    def J(Rm):
        return float(np.trace(Cnn - 2 * Rm @ Pk @ Con.T + Rm @ Cr @ Rm.T))

    Ropt = (Con @ Vk) / lk @ Vk.T
    j_r, j_opt = J(R @ Pk), J(Ropt)
    jscale = float(np.trace(Cnn)) + 1e-300
    ctx.metric("(J(R)-J(opt))/trace", (j_r - j_opt) / jscale)
    if (j_r - j_opt) / jscale > 1e-3:
        ctx.note("large J gap %.3g: %r cond_k=%.3g eps=%.3g" % ((j_r - j_opt) / jscale, wit, cond_k, eps))
    ctx.check(j_r <= j_opt + 200 * eps * cond_k * jscale, mech + ":not_minimum_variance", "J(R) = %.6g exceeds the optimum %.6g (scale %.3g)" % (j_r, j_opt, jscale), wit)
    rng = np.random.default_rng(abs(hash((R.shape, float(R.flat[0])))) % (2 ** 32))
    for _ in range(8):
        D = rng.standard_normal(R.shape) @ Pk
        e = 10 ** rng.uniform(-4, -1) * (np.abs(R).max() + 1e-300) / (np.abs(D).max() + 1e-300)
        ctx.count("competitors_compared")
        ctx.check(J(R @ Pk + e * D) >= j_r - 200 * eps * cond_k * jscale, mech + ":competitor_better", "a perturbed reconstructor has smaller residual variance", wit)


def gap_rcond(ev, rng, eps):
    """A conditioning value in the (log) middle of a spectral gap of ratio >= 1000 that the input precision can resolve."""
    ev = np.sort(np.asarray(ev, dtype=float))[::-1]
    ev = np.maximum(ev, ev[0] * 1e-300)
    ratios = ev[:-1] / ev[1:]
    cand = [i for i in np.where(ratios > 1e3)[0] if np.sqrt(ev[i] * ev[i + 1]) / ev[0] >= 1e3 * eps]
    if len(cand) == 0:
        return None
    i = int(rng.choice(cand))
    return float(np.sqrt(ev[i] * ev[i + 1]) / ev[0])


def run(ctx, spec):
    import aotools
    from aotools.turbulence import slopecovariance as sc
    rng = ctx.rng
    fn = sc.create_tomographic_covariance_reconstructor
    if aotools.create_tomographic_covariance_reconstructor is not fn:
        ctx.note("top-level create_tomographic_covariance_reconstructor is another object than the module's (not judged)")
    for i in range(spec["n_syn"]):
        n_on = int(rng.integers(1, 5))
        n_off = int(rng.integers(1, 14))
        n = 2 * n_on + 2 * n_off
        dtype = np.float32 if rng.random() < 0.4 else np.float64
        kind = str(rng.choice(["wishart", "lowrank", "cond"]))
        C = synth(rng, n, kind, dtype)
        ev = np.linalg.eigvalsh(np.asarray(C[2 * n_on:, 2 * n_on:], dtype=np.float64))
        cond = float(ev.max() / max(ev.min(), 1e-300))
        eps = float(np.finfo(dtype).eps)
        choices = []
        if cond * eps < 1e-3:
            choices.append(0.0)                      # zero conditioning: only where well conditioned
        g = gap_rcond(ev, rng, eps)
        if g is not None:
            choices.append(g)
        if not choices:
            choices.append(float(np.sqrt(ev.max() * max(ev.min(), 1e-300)) / ev.max()) if False else None)
        for rc in [c for c in choices if c is not None]:
            wit = {"family": kind, "n_on": n_on, "n_off": n_off, "dtype": str(np.dtype(dtype)), "svd_conditioning": rc, "cond(Coff)": cond}
            ctx.count("synthetic_matrices")
            ctx.count("conditioning_zero" if rc == 0.0 else "conditioning_inside_spectral_gap")
            ctx.case("synthetic", key=(kind, n_on, n_off, str(dtype), rc, float(C.flat[1])), nontrivial=n_off >= 1, sample=wit)
            R = pure_call(ctx, "create_tomographic_covariance_reconstructor", fn, C, n_on, rc) if rc != 0.0 or rng.random() < 0.5 else fn(C, n_on)
            judge(ctx, R, C, n_on, rc, wit, "reconstructor")
    # ---------------- a large system (hundreds of slopes, single precision, default zero conditioning) ----------------
    if spec["shard"] < 4 or spec["n_e2e"] > 2:
        n, nw, Dt = 8, 5, 8.0
        m = aotools.circle(n / 2.0, n)
        spread = float(rng.uniform(8, 25))
        pos = [[0.0, 0.0]] + [[float(v) for v in rng.uniform(-spread, spread, 2)] for _ in range(nw - 1)]
        which = int(rng.integers(1, nw))
        pos[which] = list(pos[0])
        cfg = {"n_wfs": nw, "pupil_masks": [m] * nw, "telescope_diameter": Dt, "subap_diameters": [Dt / n] * nw, "gs_altitudes": [0.0] * nw,
               "gs_positions": pos, "wfs_wavelengths": [5e-7] * nw, "n_layers": 2, "layer_altitudes": [0.0, float(rng.uniform(4000, 12000))],
               "layer_r0s": [0.15, 0.3], "layer_L0s": [25.0, 25.0]}
        obj = slopecfg.construct(aotools, cfg)
        M = obj.make_covariance_matrix()
        R = np.asarray(obj.make_tomographic_reconstructor(), dtype=np.float64)
        ns = int(2 * m.sum())
        ev = np.linalg.eigvalsh(M[ns:, ns:].astype(np.float64))
        cond = float(ev.max() / max(ev.min(), 1e-300))
        wl = {"slopes": int(M.shape[0]), "cond": cond, "duplicate": which, "spread_arcsec": spread}
        ctx.case("end_to_end_large", key=("large", spread, which), nontrivial=True, sample=wl)
        ctx.count("large_systems")
        if cond * 1.2e-7 < 0.05:
            sel = np.zeros(R.shape)
            sel[:, (which - 1) * ns:which * ns] = np.eye(ns)
            ctx.metric("duplicate_selector_err/(eps32 cond)", float(np.abs(R - sel).max() / (1.2e-7 * cond)))
            ctx.close("duplicate_sensor_selector_large", R, sel, 2 * 1.2e-7 * cond + 1e-6, "duplicate_sensor:not_selector:large_system", wl)
    # ---------------- end to end through the class, with histories ----------------
    for j in range(spec["n_e2e"]):
        n = int(rng.integers(2, 5))
        D = float(rng.choice([4.0, 8.0]))
        dup = slopecfg._mask(str(rng.choice(["random", "full", "L", "circle"])), n, rng)
        n_wfs = int(rng.integers(3, 5))
        which = int(rng.integers(1, n_wfs))           # the off-axis sensor the on-axis one duplicates
        if j == 0 and spec["shard"] % 2 == 0:
            which = 2                                  # always present: the duplicate listed after a sensor with another cone geometry
        masks = [dup] + [slopecfg._mask(str(rng.choice(["random", "full"])), n, rng) for _ in range(n_wfs - 1)]
        masks[which] = dup.copy()
        pos = [[float(v) for v in rng.uniform(-30, 30, 2)] for _ in range(n_wfs)]
        pos[which] = list(pos[0])
        H = [0.0] + [float(rng.choice([0.0, 90000.0, 15000.0])) for _ in range(n_wfs - 1)]
        H[which] = 0.0
        if which >= 2:
            H[which - 1] = 15000.0                    # an LGS listed just before the duplicate NGS
        lam = [float(rng.choice([5e-7, 1.65e-6])) for _ in range(n_wfs)]
        lam[which] = lam[0]
        other = [i for i in range(1, n_wfs) if i != which]
        if j == 0 and other:
            lam[other[0]] = 1.65e-6 if lam[0] != 1.65e-6 else 5e-7       # at least one sensor at another wavelength
        nl = int(rng.integers(1, 4))
        cfg = {"n_wfs": n_wfs, "pupil_masks": masks, "telescope_diameter": D, "subap_diameters": [D / n] * n_wfs, "gs_altitudes": H,
               "gs_positions": pos, "wfs_wavelengths": lam, "n_layers": nl,
               "layer_altitudes": [float(rng.choice([3000.0, 9000.0]))] + [float(a) for a in rng.choice([0.0, 3000.0, 9000.0], nl - 1)], "layer_r0s": [float(v) for v in rng.uniform(0.1, 0.6, nl)],
               "layer_L0s": [float(rng.choice([10.0, 25.0, 100.0]))] * nl}
        obj = slopecfg.construct(aotools, cfg)
        ctx.count("end_to_end_histories")
        ctx.case("end_to_end", key=(slopecfg.key(cfg), which), nontrivial=True, sample=dict(slopecfg.summary(cfg), duplicate_of_onaxis=which))
        n0 = int(dup.sum())
        wit = {"config": slopecfg.summary(cfg), "duplicate": which}
        for step in range(int(rng.integers(2, 5))):
            if j == 0 and step == 1:
                obj.threads = 2            # the multi-process builder feeds the reconstructor too
            M = np.array(obj.make_covariance_matrix(), copy=True)
            if obj.threads != 1:
                slopecfg.kill_pools()
                obj.threads = 1
                ctx.count("multi_process_end_to_end_builds")
            rc = rc_hist if (step > 0 and rng.random() < 0.7) else float(rng.choice([0.0, 1e-6]))
            rc_hist = rc
            R = obj.make_tomographic_reconstructor(rc) if rc else obj.make_tomographic_reconstructor()
            Rf = fn(M, n0, rc)
            evo = np.linalg.eigvalsh(M[2 * n0:, 2 * n0:].astype(np.float64))
            cnd = float(evo.max() / max(evo.min(), 1e-300))
            if cnd * 1.2e-7 >= 0.02:
                # C_off,off is (numerically) singular, e.g. a ground layer only: outside the statement's quantifier
                ctx.count("end_to_end_steps_skipped_ill_conditioned")
                continue
            rmax = float(np.abs(np.asarray(Rf)).max()) + 1e-300
            # two single-precision pseudo-inverses of the same matrix may differ by rounding (BLAS paths depend on
            # alignment); observed difference on the unchanged tree: exactly 0
            ctx.close("method_vs_function", np.asarray(R, float), np.asarray(Rf, float), 1e-5 * rmax,
                      "method_vs_function:step%s" % ("0" if step == 0 else "N"), dict(wit, step=step, cond=cnd), scale=rmax)
            # duplicate sensor: R reproduces that sensor's slopes and ignores the others
            ctx.count("duplicate_sensor_cases")
            ns = [int(2 * m.sum()) for m in masks]
            off0 = sum(ns[1:which])
            sel = np.zeros(np.shape(R))
            sel[:, off0:off0 + ns[which]] = np.eye(ns[which])
            ev = np.linalg.eigvalsh(M[2 * n0:, 2 * n0:].astype(np.float64))
            cond = float(ev.max() / max(ev.min(), 1e-300))
            if cond * 1.2e-7 < 0.02:
                ctx.metric("duplicate_selector_err/(eps32 cond)", float(np.abs(np.asarray(R, float) - sel).max() / (1.2e-7 * cond)))
                ctx.close("duplicate_sensor_selector", np.asarray(R, float), sel, 2 * 1.2e-7 * cond + 1e-6, "duplicate_sensor:not_selector:step%s" % ("0" if step == 0 else "N"), dict(wit, step=step, cond=cond))
                judge(ctx, R, M, n0, rc, dict(wit, step=step), "end_to_end")
            # change the configuration drastically (the duplicate relation is kept) and go round again
            if rng.random() < 0.6:
                newpos = [[float(v) for v in rng.uniform(-40, 40, 2)] for _ in range(n_wfs)]
                newpos[which] = list(newpos[0])
                obj.gs_positions = newpos
            else:
                obj.layer_altitudes = [float(a) * float(rng.uniform(1.5, 3)) if a > 0 else float(rng.uniform(500, 5000)) for a in obj.layer_altitudes]
                obj.layer_L0s = [float(rng.choice([5.0, 50.0]))] * len(obj.layer_L0s)
