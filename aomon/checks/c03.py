"""C03 -- covariance construction is independent of process count and scheduling.

Schedule control: the `multiprocessing` reference held by the slope-covariance module is
replaced (a) by a controlled in-process pool that completes the per-WFS-pair tasks in every
permutation (exhaustive for <= 3 tasks, sampled for 6) and (b) by a wrapper around *real*
pools that injects per-task delays so that late tasks finish first and logs the completion
orders the workers actually produced. History checker: digests of every build on an object
(threads toggled) must equal the single-process digest.
"""
import itertools

import numpy as np

from aomon import sched
from aomon.core import digest
from aomon.workloads import slopecfg

LEVEL = "exploration"
TECHNIQUE = "schedule control (controlled pool: all completion permutations for <= 3 tasks; real pools with injected delays and logged completion orders) + history checker on build digests"
LEVEL_TEXT = ("Byte equality with the single-process matrix is demanded for: every completion permutation of the per-pair tasks under a "
              "controlled pool (1 and 2 WFS: 1 and 3 tasks per layer, exhaustive; 3 WFS: 6 tasks, 40-120 sampled permutations), real pools "
              "with 2, 3, 4, 5, 8, 16 workers (11-14 sensors, 66-105 tasks per layer, under the controlled pool) and delay plans (reverse, first-slowest, random) whose observed completion orders are logged, "
              "and rebuild histories of length 5-12 on one object with the thread count toggled among {1, 2, 3, 4}, plus two objects "
              "interleaved. Exhaustive only inside the stated bounds; real schedules are sampled.")
LEVEL_NOTE = "Trusted: the controlled pool covers the completion orders a real pool can produce for the task counts explored; fork start method."
RULE = "case = (configuration, pool kind, worker count, completion permutation | delay plan | rebuild history); non-trivial when >= 2 tasks or >= 2 builds; distinct by configuration digest and schedule"
ASSUMPTIONS = ["the library reaches its pool through the module attribute slopecovariance.multiprocessing"]
REQUIRED = ["slopecovariance.py:CovarianceMatrix.make_covariance_matrix"]
REQUIRED_COUNTERS = ["controlled_builds", "real_pool_builds", "rebuild_histories", "distinct_completion_orders_controlled", "real_completion_orders_logged"]
TIMEOUT = {"quick": 1200, "thorough": 7200}


def plan(tier, seed):
    return [{"shard": i, "n_shards": 16, "cfgs": 1 if tier == "quick" else 30, "perm6": 8 if tier == "quick" else 120,
             "real": 1 if tier == "quick" else 40, "hist": 1 if tier == "quick" else 100} for i in range(16)]


def far_apart_cfg(rng, n_wfs):
    """A small outer scale and a wide asterism: the meta-pupils of two sensors at the (only) layer are several outer scales apart,
    where the structure function is saturated to within 1e-13 .. 0 (a shortcut for 'decorrelated' pairs must still be bit-exact)."""
    c = slopecfg.make_config(rng, n_wfs=n_wfs, max_n=3, cls="same_geometry")
    D, h = 4.0, 15000.0
    L0 = float(rng.choice([1.0, 2.0, 3.0]))
    gap = L0 * float(rng.uniform(4.5, 8.0)) + D          # centre-to-centre distance of the meta-pupils
    th = gap / h / slopecfg_arcsec()
    ang = float(rng.uniform(0, 2 * np.pi))
    c["telescope_diameter"] = D
    c["subap_diameters"] = [D / m.shape[0] for m in c["pupil_masks"]]
    c["gs_altitudes"] = [0.0] * n_wfs
    c["gs_positions"] = [[0.0, 0.0]] + [[th * np.cos(ang + k), th * np.sin(ang + k)] for k in range(n_wfs - 1)]
    c["n_layers"], c["layer_altitudes"], c["layer_r0s"], c["layer_L0s"] = 1, [h], [float(rng.uniform(0.1, 0.3))], [L0]
    c["class"] = "far_apart_metapupils"
    return c


def slopecfg_arcsec():
    return np.pi / 180.0 / 3600.0


def small_cfg(rng, n_wfs):
    v = rng.random()
    if n_wfs >= 2 and v > 0.9:
        return far_apart_cfg(rng, n_wfs)
    if n_wfs >= 2 and v < 0.15:
        c = slopecfg.nearly_equal_sensors(rng, max_n=3, n_wfs=n_wfs)
    elif n_wfs >= 2 and v < 0.25:
        c = slopecfg.layer_above_gs(rng, max_n=3, n_wfs=n_wfs)
    else:
        c = slopecfg.make_config(rng, n_wfs=n_wfs, max_n=3)
    c["n_layers"] = min(c["n_layers"], 3)
    for k in ("layer_altitudes", "layer_r0s", "layer_L0s"):
        c[k] = c[k][:c["n_layers"]]
    u = rng.random()
    if u < 0.2 and c["n_layers"] >= 2:
        c["n_layers"] -= 1                     # profile tables longer than n_layers: only the first n_layers count
    elif u < 0.4:
        c["wfs_wavelengths"] = np.asarray(c["wfs_wavelengths"], dtype=np.float32)     # single-precision parameter arrays
        c["subap_diameters"] = np.asarray(c["subap_diameters"], dtype=np.float32)
    return c


def build(aotools, sc, cfg, threads, pool_factory=None):
    real_mp = sc.multiprocessing
    if pool_factory is not None:
        sc.multiprocessing = sched.fake_mp(pool_factory)
    try:
        obj = slopecfg.construct(aotools, cfg, threads=threads)
        return obj, np.array(obj.make_covariance_matrix(), copy=True)
    finally:
        sc.multiprocessing = real_mp


def run(ctx, spec):
    import aotools
    from aotools.turbulence import slopecovariance as sc
    rng = ctx.rng
    seen_orders = set()
    # ---------------- (i) controlled pool: completion permutations ----------------
    for ci in range(spec["cfgs"]):
        for n_wfs in (1, 2, 3, -2):
            cfg = small_cfg(rng, n_wfs) if n_wfs > 0 else far_apart_cfg(rng, 2)      # (-2: the far-apart class, always present)
            n_wfs = abs(n_wfs)
            ntask = n_wfs * (n_wfs + 1) // 2
            _, ref = build(aotools, sc, cfg, 1)
            dref = digest(ref)
            perms = sched.all_permutations(ntask) if ntask <= 3 else [list(rng.permutation(ntask)) for _ in range(spec["perm6"])] + [list(range(ntask))[::-1]]
            for perm in perms:
                log = []
                perm = [int(v) for v in perm]
                factory = lambda n=None, _p=perm, _l=log: sched.ControlledPool(n, perm_of=lambda k, _pp=_p: _pp if k == len(_pp) else list(range(k))[::-1], log=_l)
                threads = int(rng.choice([2, 3, 4, 5, 8]))
                wit = {"config": slopecfg.summary(cfg), "threads": threads, "completion_order": perm, "pool": "controlled"}
                ctx.case("controlled_pool", key=(slopecfg.key(cfg), tuple(perm), threads), nontrivial=ntask >= 2,
                         sample={"n_wfs": n_wfs, "tasks_per_layer": ntask, "completion_order": perm, "threads": threads})
                _, M = build(aotools, sc, cfg, threads, factory)
                if log:
                    ctx.count("controlled_builds")
                else:
                    ctx.count("builds_where_the_substituted_pool_was_not_used")   # nothing observed: inconclusive if always so
                for l in log:
                    seen_orders.add((l["api"], tuple(l["completion_order"])))
                ctx.check(M.dtype == ref.dtype and M.shape == ref.shape and digest(M) == dref, "differs_from_single_process:controlled_pool:%dtasks" % ntask,
                          "threads=%d, completion order %s: matrix differs from the single-process build (max |diff| %.3g)"
                          % (threads, perm, float(np.abs(M.astype(float) - ref.astype(float)).max()) if M.shape == ref.shape else -1), wit)
    ctx.count("distinct_completion_orders_controlled", len(seen_orders))
    # ---------------- (ii) real pools with injected delays ----------------
    registry = []
    try:
        for ri in range(spec["real"]):
            n_wfs = int(rng.choice([2, 3]))
            cfg = small_cfg(rng, n_wfs)
            ntask = n_wfs * (n_wfs + 1) // 2
            _, ref = build(aotools, sc, cfg, 1)
            dref = digest(ref)
            workers = int([2, 3, 4, 5, 8, 16][(spec["shard"] + ri) % 6])
            plan_name = ["reverse", "first_slowest", "random"][(spec["shard"] // 6 + ri) % 3]
            rd = rng.random(64)

            def delay_of(i, n, _pl=plan_name, _rd=rd):
                if _pl == "reverse":
                    return 0.02 * (n - 1 - i)
                if _pl == "first_slowest":
                    return 0.08 if i == 0 else 0.0
                return 0.05 * float(_rd[i % 64])

            log = []
            factory = lambda n=None, _d=delay_of, _l=log: sched.DelayPool(n, _d, _l, registry)
            wit = {"config": slopecfg.summary(cfg), "workers": workers, "delay_plan": plan_name, "pool": "real"}
            _, M = build(aotools, sc, cfg, workers, factory)
            if log:
                ctx.count("real_pool_builds")
            ctx.count("real_completion_orders_logged", len(log))
            orders = [l["completion_order"] for l in log]
            nonid = sum(1 for o in orders if o != sorted(o))
            ctx.count("real_batches_completed_out_of_order", nonid)
            ctx.case("real_pool", key=(slopecfg.key(cfg), workers, plan_name), nontrivial=True,
                     sample={"n_wfs": n_wfs, "workers": workers, "delay_plan": plan_name, "observed_completion_orders": orders[:3],
                             "worker_pids": sorted({p for l in log for p in l.get("pids", [])})})
            ctx.check(M.shape == ref.shape and digest(M) == dref, "differs_from_single_process:real_pool",
                      "workers=%d, plan %s, observed completion orders %s: matrix differs from the single-process build" % (workers, plan_name, orders[:3]), wit)
            for p in registry:
                p.terminate()
            del registry[:]
    finally:
        for p in registry:
            p.terminate()
        slopecfg.kill_pools()
    # ---------------- (ii b) many sensors: more than 10 WFS (two-digit indices, 66-105 tasks per layer) ----------------
    if spec["shard"] % 4 == 0:
        n_wfs = int([11, 12, 14, 11][(spec["shard"] // 4) % 4])
        cfg = small_cfg(rng, n_wfs)
        for m_i in range(n_wfs):                          # small masks keep the matrix small
            cfg["pupil_masks"][m_i] = cfg["pupil_masks"][m_i][:2, :2].copy()
            if cfg["pupil_masks"][m_i].sum() == 0:
                cfg["pupil_masks"][m_i][0, 0] = 1
            cfg["subap_diameters"][m_i] = cfg["telescope_diameter"] / cfg["pupil_masks"][m_i].shape[0]
        cfg["n_layers"] = min(cfg["n_layers"], 2)
        _, ref = build(aotools, sc, cfg, 1)
        ntask = n_wfs * (n_wfs + 1) // 2
        for perm in (list(range(ntask)), list(range(ntask))[::-1], [int(v) for v in rng.permutation(ntask)]):
            log = []
            factory = lambda n=None, _p=perm, _l=log: sched.ControlledPool(n, perm_of=lambda k, _pp=_p: _pp if k == len(_pp) else list(range(k))[::-1], log=_l)
            wit = {"config": slopecfg.summary(cfg), "n_wfs": n_wfs, "tasks_per_layer": ntask, "pool": "controlled"}
            ctx.case("many_sensors", key=(slopecfg.key(cfg), tuple(perm[:8])), nontrivial=True, sample={"n_wfs": n_wfs, "tasks_per_layer": ntask, "completion_order_head": perm[:8]})
            _, M = build(aotools, sc, cfg, int(rng.choice([2, 3, 5])), factory)
            ctx.count("many_sensor_builds")
            ctx.check(M.shape == ref.shape and digest(M) == digest(ref), "differs_from_single_process:more_than_10_sensors",
                      "%d sensors (%d tasks per layer): the multi-process matrix differs from the single-process build (max |diff| %.3g)"
                      % (n_wfs, ntask, float(np.abs(M.astype(float) - ref.astype(float)).max()) if M.shape == ref.shape else -1), wit)
    # ---------------- (iii) rebuild histories with the thread count toggled ----------------
    for hi in range(spec["hist"]):
        cfg_a, cfg_b = small_cfg(rng, int(rng.choice([2, 3]))), small_cfg(rng, int(rng.choice([1, 2, 3])))
        _, ref_a = build(aotools, sc, cfg_a, 1)
        _, ref_b = build(aotools, sc, cfg_b, 1)
        first = int(rng.choice([1, 2, 3]))
        obj_a = slopecfg.construct(aotools, cfg_a, threads=first)
        obj_b = slopecfg.construct(aotools, cfg_b, threads=int(rng.choice([1, 2])))
        hist = [first] + [int(v) for v in rng.choice([1, 2, 3, 4], int(rng.integers(4, 12)))]
        if hi % 2 == 0:
            hist[:3] = [[1, 2, 2], [2, 2, 1], [2, 1, 3]][(hi // 2 + spec["shard"]) % 3]
        log = []
        perm_rng = np.random.default_rng([ctx.seed, spec["shard"], hi])
        factory = lambda n=None, _l=log: sched.ControlledPool(n, perm_of=lambda k: [int(v) for v in perm_rng.permutation(k)], log=_l)
        real_mp = sc.multiprocessing
        sc.multiprocessing = sched.fake_mp(factory)
        wit = {"config": slopecfg.summary(cfg_a), "thread_history": hist}
        ctx.count("rebuild_histories")
        ctx.case("rebuild_history", key=(slopecfg.key(cfg_a), tuple(hist)), nontrivial=len(hist) >= 2, sample={"thread_history": hist, "n_wfs": cfg_a["n_wfs"]})
        try:
            for step, th in enumerate(hist):
                obj_a.threads = th
                M = np.array(obj_a.make_covariance_matrix(), copy=True)
                ctx.check(digest(M) == digest(ref_a), "rebuild_differs:step%s:threads_%s_after_%s" % ("0" if step == 0 else "N", "1" if th == 1 else "mp", "start" if step == 0 else ("1" if hist[step - 1] == 1 else "mp")),
                          "build #%d (threads=%d, history %s) differs from the single-process matrix (max |diff| %.3g, scale %.3g)"
                          % (step, th, hist[:step + 1], float(np.abs(M.astype(float) - ref_a.astype(float)).max()), float(np.abs(ref_a).max())), wit)
                if step % 2 == 1:      # a second object is rebuilt in between
                    obj_b.threads = int(rng.choice([1, 2, 3]))
                    Mb = np.array(obj_b.make_covariance_matrix(), copy=True)
                    ctx.check(digest(Mb) == digest(ref_b), "rebuild_differs:interleaved_object", "interleaved second object differs from its single-process matrix", wit)
        finally:
            sc.multiprocessing = real_mp
