"""C18 -- profile compression conserves the turbulence it compresses."""
import numpy as np

from aomon.core import pure_call

LEVEL = "exploration"
TECHNIQUE = "post-condition monitors (conservation laws, cost by definition) on the three real methods under hostile global-RNG states; recording wrapper on the optimiser; numba bounds-check and JIT-vs-interpreter differential"
LEVEL_TEXT = ("Random and adversarial profiles (regular / irregular / integer-typed heights, hmin = 0 and > 0, ranges chosen so that float "
              "slab edges round badly, strengths over four decades incl. zeros, optional wind varying inside slabs) are compressed for every "
              "L < N (small N) or random L; layer count, non-negativity, total Cn2, 5/3 height and wind moments, ordering, membership and the "
              "optimal-grouping cost (recomputed from its definition, vs the equal split) are asserted after every call, with NumPy's global "
              "generator put in hostile states first. GCTM is observed through a wrapper on the optimiser it calls. One shard runs the "
              "numba kernels with NUMBA_BOUNDSCHECK=1 and one with the JIT disabled (differential). Exploration over profiles.")
LEVEL_NOTE = "Trusted: NumPy sums; scipy.optimize.minimize's own success flag for the GCTM accuracy clause."
RULE = "case = (method, N, L, height pattern, strength pattern, wind?, global RNG state class); non-trivial when N >= 3; distinct by profile digest and L"
ASSUMPTIONS = ["1 <= L < N; heights sorted increasing", "GCTM only on profiles whose L equal-thickness slabs are all non-empty",
               "zero-strength output layers (empty slabs) carry no height information and are not judged"]
REQUIRED = ["profile_compression.py:equivalent_layers", "profile_compression.py:optimal_grouping", "profile_compression.py:GCTM"]
REQUIRED_COUNTERS = ["arange_rounding_class_cases", "global_rng_hostile_states", "jit_differential_groupings"]
TIMEOUT = {"quick": 900, "thorough": 5400}


def plan(tier, seed):
    n = 16
    out = []
    for i in range(n):
        s = {"shard": i, "n_el": 60 if tier == "quick" else 25000, "n_og": 8 if tier == "quick" else 1200,
             "n_gctm": 3 if tier == "quick" else 500, "exhaustive_L_upto": 12 if tier == "quick" else 25}
        if i == 14:
            s["env"] = {"NUMBA_BOUNDSCHECK": "1"}
        if i == 15:
            s["env"] = {"NUMBA_DISABLE_JIT": "1"}
            s["n_og"] = 3 if tier == "quick" else 60
        out.append(s)
    return out


def gen_profile(rng, N, kind=None):
    kind = int(rng.integers(0, 6)) if kind is None else kind
    hmin = 0.0 if rng.random() < 0.5 else float(rng.uniform(1, 3000))
    if kind == 0:
        h = hmin + np.arange(N) * float(rng.choice([250.0, 100.0, 333.3]))
    elif kind == 1:
        h = hmin + np.sort(rng.uniform(0, 25000, N))
    elif kind == 2:
        h = np.arange(0, 250 * N, 250)            # integer dtype, as in the library's own tests
    elif kind == 3:
        h = hmin + np.cumsum(10 ** rng.uniform(0, 3.5, N))
    elif kind == 4:
        h = hmin + np.sort(np.round(rng.uniform(0, 20000, N), 2))
    else:
        h = np.linspace(hmin, hmin + float(rng.uniform(5000, 30000)), N)
    h = np.unique(h)
    while len(h) < N:
        h = np.unique(np.concatenate([h, h[-1:] + rng.uniform(1, 500, N - len(h)).cumsum()]))
    h = h[:N]
    pk = int(rng.integers(0, 4))
    p = 10 ** rng.uniform(-17, -13, N)
    if pk == 1:
        p[rng.random(N) < 0.3] = 0.0
        if p.sum() == 0:
            p[0] = 1e-15
    elif pk == 2:
        p = np.ones(N) * 100e-17
    elif pk == 3:
        p = rng.integers(1, 50, N) / 4.0          # O(1) fractional weights
    w = 10 ** rng.uniform(0, 1.7, N)
    return h, p, w, (kind, pk)


def arange_bad_range(rng):
    """(hmin, hmax, L) for which arange(hmin, hmax, (hmax-hmin)/L) has L+1 elements (float rounding)."""
    for _ in range(20000):
        L = int(rng.integers(2, 40))
        hmin = float(rng.choice([0.0, rng.uniform(0, 2000)]))
        hmax = hmin + float(np.round(rng.uniform(1000, 30000), 2))
        if len(np.arange(hmin, hmax, (hmax - hmin) / L)) == L + 1:
            return hmin, hmax, L
    return None


def moments53(strength, x):
    strength = np.asarray(strength, dtype=np.float64)
    x = np.asarray(x, dtype=np.float64)
    sel = strength > 0
    return float((strength[sel] * x[sel] ** (5.0 / 3.0)).sum())


def check_el(ctx, pc, h, p, w, L, tag, rng):
    use_w = rng.random() < 0.6
    if use_w and rng.random() < 0.3:
        w = np.round(w).astype(np.int64) + 1          # integer-typed wind speeds
    wit = {"N": len(h), "L": L, "class": tag, "wind": use_w, "h_dtype": str(h.dtype), "w_dtype": str(w.dtype), "h_range": [float(h.min()), float(h.max())]}
    ctx.case("equivalent_layers", key=(tag, L, use_w, float(np.sum(h * 1.0)), float(p.sum())), nontrivial=len(h) >= 3, sample=wit)
    if use_w:
        out = pure_call(ctx, "equivalent_layers", pc.equivalent_layers, h, p, L, w)
    else:
        out = pure_call(ctx, "equivalent_layers", pc.equivalent_layers, h, p, L)
    if not ctx.check(len(out) == (3 if use_w else 2), "equivalent_layers:arity", "returned %d arrays" % len(out), wit):
        return
    h_el, c_el = np.asarray(out[0], float), np.asarray(out[1], float)
    if not ctx.check(len(h_el) == L and len(c_el) == L, "equivalent_layers:layer_count", "returned %d/%d layers, asked %d" % (len(h_el), len(c_el), L), wit):
        return
    tot = float(np.sum(p))
    ctx.check(bool(np.all(c_el >= 0)), "equivalent_layers:negative_strength", "negative strength", wit)
    ctx.close("el_total_cn2", float(c_el.sum()), tot, 1e-12 * tot, "equivalent_layers:total_cn2:" + tag, wit, scale=tot)
    m_in = moments53(p, h)
    ctx.close("el_height_moment", moments53(c_el, h_el), m_in, 1e-11 * m_in + 1e-300, "equivalent_layers:height_moment", wit, scale=m_in if m_in else None)
    ctx.check(bool(np.all(np.isfinite(h_el[c_el > 0]))), "equivalent_layers:nonfinite_height", "non-finite height for a layer with strength", wit)
    if use_w:
        w_el = np.asarray(out[2], float)
        ctx.check(len(w_el) == L, "equivalent_layers:layer_count", "wind has %d layers" % len(w_el), wit)
        mw = moments53(p, w)
        ctx.close("el_wind_moment", moments53(c_el, w_el), mw, 1e-11 * mw, "equivalent_layers:wind_moment" + (":int_wind" if w.dtype.kind in "iu" else ""), wit, scale=mw)
    # heights of non-empty layers increase
    hs = h_el[c_el > 0]
    ctx.check(bool(np.all(np.diff(hs) > 0)) if len(hs) > 1 else True, "equivalent_layers:order", "layer heights not increasing", wit)


def cost_def(groups, h, p):
    tot = 0.0
    for g in groups:
        hg, pg = np.asarray(h[g], float), np.asarray(p[g], float)
        tot += min(float((pg * np.abs(hg - hs)).sum()) for hs in hg)
    return tot


def groups_from_strengths(p, cn2):
    """Contiguous grouping whose strength sums reproduce cn2 (zero-strength layers may go either way: cost-neutral)."""
    cs = np.concatenate([[0.0], np.cumsum(np.asarray(p, float))])
    tgt = np.cumsum(np.asarray(cn2, float))
    groups = []
    start = 0
    tot = cs[-1]
    for k, t in enumerate(tgt):
        if k == len(tgt) - 1:
            end = len(p)
        else:
            cand = np.where(np.abs(cs - t) <= 1e-9 * tot)[0]
            cand = cand[cand > start]
            if len(cand) == 0:
                return None
            end = int(cand[0])
        groups.append(np.arange(start, end))
        start = end
    return groups


def check_og(ctx, pc, h, p, L, R, tag, rng, state_cls):
    N = len(h)
    wit = {"N": N, "L": L, "R": R, "class": tag, "h_dtype": str(h.dtype), "rng_state": state_cls}
    ctx.case("optimal_grouping", key=(tag, L, R, float(np.sum(h * 1.0)), float(p.sum()), state_cls), nontrivial=N >= 3, sample=wit)
    h_L, c_L = pure_call(ctx, "optimal_grouping", pc.optimal_grouping, R, L, h, p)
    h_L, c_L = np.asarray(h_L), np.asarray(c_L)
    if not ctx.check(len(h_L) == L and len(c_L) == L, "optimal_grouping:layer_count" + (":L1" if L == 1 else ""),
                     "returned %d/%d layers, asked %d" % (len(h_L), len(c_L), L), wit):
        return
    tot = float(np.sum(p))
    ctx.check(bool(np.all(c_L >= 0)), "optimal_grouping:negative_strength", "negative strength", wit)
    ctx.close("og_total_cn2", float(np.sum(c_L.astype(float))), tot, 1e-12 * tot, "optimal_grouping:total_cn2:" + ("int_heights" if h.dtype.kind in "iu" else "float_heights"), wit, scale=tot)
    ctx.check(bool(np.all(np.isin(h_L.astype(float), h.astype(float)))), "optimal_grouping:heights_are_input_heights", "a returned height is not an input height", wit)
    if tag == "tied_heights":
        ctx.check(bool(np.all(np.diff(h_L.astype(float)) >= 0)) if L > 1 else True, "optimal_grouping:order", "returned heights decrease", wit)
    else:
        ctx.check(bool(np.all(np.diff(h_L.astype(float)) > 0)) if L > 1 else True, "optimal_grouping:order", "returned heights not increasing", wit)
    groups = groups_from_strengths(p, c_L)
    if not ctx.check(groups is not None and all(len(g) > 0 for g in groups), "optimal_grouping:not_a_contiguous_partition",
                     "returned strengths are not the sums of a contiguous partition of the input", wit):
        return
    for g, hh in zip(groups, h_L):
        if float(np.asarray(p[g], float).sum()) > 0:
            ctx.check(float(hh) >= float(h[g[0]]) - 1e-9 and float(hh) <= float(h[g[-1]]) + 1e-9, "optimal_grouping:height_outside_group",
                      "layer height %s outside its group [%s, %s]" % (hh, h[g[0]], h[g[-1]]), wit)
            ctx.count("oracle_evals")
    c_ret = cost_def(groups, h, p)
    spl = np.linspace(0, N, L + 1, dtype=int)[1:-1]
    edges = [0] + [int(s) + 1 for s in spl] + [N]
    eq_groups = [np.arange(a, b) for a, b in zip(edges[:-1], edges[1:]) if b > a]
    c_eq = cost_def(eq_groups, h, p)
    ctx.metric("og_cost/equal_split_cost", c_ret / c_eq if c_eq > 0 else 0.0)
    ctx.check(c_ret <= c_eq * (1 + 1e-9) + 1e-300, "optimal_grouping:worse_than_equal_split", "cost %.6g > equal-split cost %.6g" % (c_ret, c_eq), wit)
    # returned heights achieve the group's minimum cost
    for g, hh in zip(groups, h_L):
        pg, hg = np.asarray(p[g], float), np.asarray(h[g], float)
        if pg.sum() > 0:
            best = min(float((pg * np.abs(hg - hs)).sum()) for hs in hg)
            mine = float((pg * np.abs(hg - float(hh))).sum())
            ctx.check(mine <= best * (1 + 1e-9) + 1e-300, "optimal_grouping:height_not_cost_minimiser", "returned height is not the group's cost minimiser", wit)


def hostile_rng(rng, k):
    if k == 0:
        np.random.seed(0)
        return "seed0"
    if k == 1:
        np.random.seed(int(rng.integers(0, 2 ** 32 - 1)))
        return "random_seed"
    if k == 2:
        np.random.seed(None)
        return "os_entropy"
    np.random.seed(12345)
    np.random.random(100000)
    return "after_1e5_draws"


# profiles (regular 20 km grid, strengths over six decades) for which the optimiser's solution comes back with two layers out of
# height order (found by search, ~1 % of such profiles): heights and strengths must still belong together
CROSSING_PROFILE_SEEDS = [135, 294, 391, 516, 621, 673, 816, 848]


def check_gctm(ctx, pc, rng, record, crossing_seed=None):
    N = int(rng.integers(8, 60))
    L = int(rng.integers(1, 5))
    for _ in range(50 if crossing_seed is None else 0):
        h, p, w, kinds = gen_profile(rng, N, kind=int(rng.choice([0, 1, 5])))
        hf = h.astype(float)
        step = (hf.max() - hf.min()) / L
        ix = np.digitize(hf, hf.min() + step * np.arange(L))
        if all(np.any((ix == i + 1) & (p > 0)) for i in range(L)):
            break
    else:
        if crossing_seed is None:
            return
        g_ = np.random.default_rng([crossing_seed, 1807])
        N, L = int(g_.integers(20, 60)), int(g_.integers(3, 6))
        h = np.linspace(0, 20000., N)
        p = 10.0 ** g_.uniform(-19, -13, N)
        hf, kinds = h, ("regular_grid", "six_decades")
    p = 10 ** rng.uniform(-15, -13, N) if (crossing_seed is None and kinds[1] == 3) else p
    wit = {"N": N, "L": L, "kinds": kinds}
    ctx.case("GCTM", key=(N, L, float(hf.sum()), float(p.sum())), nontrivial=True, sample=wit)
    record.clear()
    hs_, cs_ = 10000.0, 100e-15
    unit = 1.0
    u_ = rng.random() if crossing_seed is None else 1.0
    if u_ < 0.3:                              # non-default scalings must only change the conditioning, not the result
        hs_, cs_ = float(rng.choice([5000.0, 20000.0])), float(rng.choice([50e-15, 200e-15]))
        h_L, c_L = pure_call(ctx, "GCTM", pc.GCTM, h, p, L, hs_, cs_)
        wit = dict(wit, h_scaling=hs_, cn2_scaling=cs_)
    elif u_ < 0.5:
        # the same profile with heights in km, or as a fraction of 20 km, and the height scaling in the same unit (10, 0.5):
        # the scaled problem handed to the optimiser is the same one
        unit = float(rng.choice([1000.0, 20000.0]))
        h = hf / unit
        hf = h
        hs_ = 10000.0 / unit
        h_L, c_L = pure_call(ctx, "GCTM", pc.GCTM, h, p, L, hs_, cs_)
        wit = dict(wit, h_scaling=hs_, cn2_scaling=cs_, height_unit_m=unit)
    else:
        h_L, c_L = pure_call(ctx, "GCTM", pc.GCTM, h, p, L)
    # whatever the optimiser did, the returned layers must fit the moments at least as well as the starting guess
    # (the equivalent-layers compression, a public function) in the function's own scaled variables
    g_h, g_c = pc.equivalent_layers(h, p, L)
    m0_ = np.array([(np.asarray(p, float) / cs_ * (hf / hs_) ** i).sum() for i in range(2 * L - 1)])
    fobj = lambda hh, cc: float(((np.array([(np.asarray(cc, float) / cs_ * (np.asarray(hh, float) / hs_) ** i).sum() for i in range(2 * L - 1)]) - m0_) ** 2).sum())
    if len(h_L) == L and len(c_L) == L:
        f_ret, f_guess = fobj(h_L, c_L), fobj(g_h, g_c)
        ctx.count("gctm_result_vs_starting_guess")
        ctx.check(f_ret <= f_guess * (1 + 1e-9) + 1e-24 * float((m0_ ** 2).sum()), "GCTM:worse_than_starting_guess",
                  "the returned layers miss the moments by %.3g, the equivalent-layers starting guess by %.3g" % (f_ret, f_guess), wit)
    ctx.check(len(h_L) == L and len(c_L) == L, "GCTM:layer_count", "returned %d/%d layers" % (len(h_L), len(c_L)), wit)
    ctx.check(bool(np.all(np.asarray(c_L) >= 0) and np.all(np.asarray(h_L) >= 0)), "GCTM:bounds", "negative strength or height", wit)
    if len(record) != 1:
        # the optimiser is reached some other way than through the module attribute: nothing to observe (the run is
        # inconclusive for this clause if that is always so -- REQUIRED_COUNTERS)
        ctx.count("gctm_optimiser_not_observed")
    else:
        ctx.count("gctm_minimize_calls_observed")
        rec = record[0]
        f0, f1 = rec["f_x0"], rec["f_res"]
        ctx.check(f1 <= f0 * (1 + 1e-12), "GCTM:objective_increased", "objective went from %.3g to %.3g" % (f0, f1), wit)
        # what is returned is what the optimiser found: same objective value (heights and strengths still paired)
        if len(h_L) == L and len(c_L) == L:
            ctx.check(fobj(h_L, c_L) <= f1 * (1 + 1e-6) + 1e-24 * float((m0_ ** 2).sum()), "GCTM:returned_layers_are_not_the_optimisers",
                      "the returned layers miss the moments by %.3g, the optimiser's solution by %.3g" % (fobj(h_L, c_L), f1), wit)
    if len(h_L) == L and np.any(np.diff(np.asarray(h_L)) < 0):
        ctx.count("gctm_results_with_layers_out_of_height_order")
    success = bool(record[0]["success"]) if len(record) == 1 else True
    hs, cs = hf * unit / 10000.0, np.asarray(p, float) / 100e-15
    mom_in = np.array([(cs * hs ** i).sum() for i in range(2 * L - 1)])
    mom_out = np.array([(np.asarray(c_L) / 100e-15 * (np.asarray(h_L) * unit / 10000.0) ** i).sum() for i in range(2 * L - 1)])
    relerr = float(np.abs(mom_out - mom_in).max() / np.abs(mom_in).max())
    ctx.metric("gctm_moment_relerr" + ("_success" if success else "_nosuccess"), relerr)
    # The optimiser weights the high moments far more than moment 0 (scaled heights reach 2.5-5, so h^6 is 250-15000):
    # total Cn2 errors of 4-15 % (default scalings) and up to 61 % (h_scaling = 5000) were observed on the unchanged tree
    # with SciPy reporting convergence. "To optimiser accuracy" promises no more, so it is reported, not judged.
    ctx.metric("gctm_total_cn2_relerr", abs(mom_out[0] - mom_in[0]) / mom_in[0])
    bound = 0.1 if (hs_ * unit, cs_) == (10000.0, 100e-15) else 0.3
    if success:
        ctx.check(relerr <= bound, "GCTM:moments", "moments reproduced to %.3g only (optimiser reported success; bound %.1f)" % (relerr, bound), wit)


def run(ctx, spec):
    import os
    import aotools
    from aotools.turbulence import profile_compression as pc
    rng = ctx.rng
    for nme in ("equivalent_layers", "optimal_grouping", "GCTM"):
        pass
    # recording wrapper around the optimiser GCTM uses
    record = []
    real_min = pc.minimize

    def min_wrapper(fun, x0, args=(), **kw):
        res = real_min(fun, x0, args=args, **kw)
        record.append({"f_x0": float(fun(np.asarray(x0), *args)), "f_res": float(fun(res["x"], *args)), "success": bool(res.get("success", False))})
        return res

    pc.minimize = min_wrapper

    # ---- equivalent layers ----
    for i in range(spec["n_el"]):
        if i % 5 == 0:
            bad = arange_bad_range(rng)
            if bad is not None:
                hmin, hmax, L = bad
                N = int(rng.integers(L + 1, L + 40))
                h = np.sort(np.concatenate([[hmin, hmax], rng.uniform(hmin, hmax, N - 2)]))
                _, p, w, _ = gen_profile(rng, N, kind=1)
                ctx.count("arange_rounding_class_cases")
                check_el(ctx, pc, h, p, w, L, "arange_rounding", rng)
                continue
        N = int(rng.integers(2, 121))
        h, p, w, kinds = gen_profile(rng, N)
        L = int(rng.integers(1, N))
        check_el(ctx, pc, h, p, w, L, "generic", rng)
    # profiles listed top-down or in arbitrary order (the slabs are defined by min / max, not by position)
    for i in range(max(4, spec["n_el"] // 10)):
        N = int(rng.integers(3, 80))
        h, p, w, kinds = gen_profile(rng, N)
        perm = np.arange(N)[::-1] if i % 2 == 0 else rng.permutation(N)
        check_el(ctx, pc, h[perm], p[perm], w[perm], int(rng.integers(1, N)), "unsorted", rng)
    # every L for small N
    N = int(rng.integers(3, spec["exhaustive_L_upto"] + 1))
    h, p, w, kinds = gen_profile(rng, N)
    for L in range(1, N):
        check_el(ctx, pc, h, p, w, L, "generic", rng)

    # ---- optimal grouping under hostile global RNG states ----
    nojit = os.environ.get("NUMBA_DISABLE_JIT") == "1"
    for i in range(spec["n_og"]):
        N = int(rng.integers(2, 14 if nojit else 26))
        h, p, w, kinds = gen_profile(rng, N, kind=2 if i % 4 == 1 else None)
        Ls = range(1, N) if (i == 0 and N <= spec["exhaustive_L_upto"]) else [int(rng.integers(1, N))]
        for L in Ls:
            R = int(rng.integers(0, 4))
            st = hostile_rng(rng, (i + L) % 4)
            ctx.count("global_rng_hostile_states")
            check_og(ctx, pc, h, p, L, R, "int_heights" if h.dtype.kind in "iu" else "float_heights", rng, st)
    # tied altitudes (two layers reported at the same height): every guarantee must still hold
    for i in range(3 if spec["n_og"] <= 8 else 40):
        N = int(rng.integers(4, 14 if nojit else 24))
        h, p, w, kinds = gen_profile(rng, N, kind=int(rng.choice([0, 4])))
        h = np.sort(np.round(h / 1500.0) * 1500.0)         # many ties
        if rng.random() < 0.5:
            p = np.round(p / p.max() * 9) + 1               # small integers: ties in the cost as well
        L = int(rng.integers(1, N))
        st = hostile_rng(rng, int(rng.integers(0, 4)))
        ctx.count("global_rng_hostile_states")
        check_og(ctx, pc, h, p, L, int(rng.integers(0, 4)), "tied_heights", rng, st)
    # larger regular profiles with equal strengths and several random restarts (the result must never be worse than the
    # equal split, whichever restart came last)
    if not nojit:
        for i in range(2 if spec["n_og"] <= 8 else 12):
            N = int(rng.integers(30, 80))
            h = np.arange(N) * 250.0
            p = np.ones(N) * 100e-17
            L = int(rng.integers(3, 9))
            st = hostile_rng(rng, int(rng.integers(0, 4)))
            ctx.count("global_rng_hostile_states")
            check_og(ctx, pc, h, p, L, int(rng.integers(2, 6)), "float_heights", rng, st)
    # ---- JIT differential on the cost kernel ----
    for i in range(40):
        N = int(rng.integers(2, 30))
        h, p, w, _ = gen_profile(rng, N, kind=int(rng.choice([0, 1, 3])))
        if i % 2:      # tied altitudes and small-integer strengths: ties inside the cost scan
            h = np.sort(np.round(h / h.max() * 6) * 1500.0)
            p = np.round(p / p.max() * 9) + 1
        L = int(rng.integers(1, N))
        splits = np.sort(rng.choice(np.arange(0, N - 1), size=L - 1, replace=False)).astype(np.int64)
        groups = pc._convert_splits_to_groups(splits, N)
        ctx.count("jit_differential_groupings")
        want = cost_def(groups, h, p)
        ctx.case("cost_kernel", key=(N, L, tuple(splits.tolist()), float(p.sum())), nontrivial=True)
        if L > 1:   # the jitted kernel is only ever called with at least one split
            gj = float(pc._Gjit(splits, np.asarray(h, float), np.asarray(p, float)))
            ctx.close("Gjit_vs_definition", gj, want, 1e-12 * want + 1e-300, "_Gjit:definition", {"N": N, "splits": splits.tolist()}, scale=want if want else None)
        gp = float(pc._G(groups, np.asarray(h, float), np.asarray(p, float)))
        ctx.close("G_vs_definition", gp, want, 1e-12 * want + 1e-300, "_G:definition", {"N": N, "splits": splits.tolist()}, scale=want if want else None)
        covered = np.sort(np.concatenate(groups)) if groups else np.array([])
        ctx.check(np.array_equal(covered, np.arange(N)), "_convert_splits_to_groups:partition", "groups do not partition 0..N-1", {"N": N, "splits": splits.tolist()})

    # ---- GCTM ----
    for i in range(spec["n_gctm"]):
        check_gctm(ctx, pc, rng, record)
    check_gctm(ctx, pc, rng, record, crossing_seed=CROSSING_PROFILE_SEEDS[spec["shard"] % len(CROSSING_PROFILE_SEEDS)])

# GCTM accuracy: "to optimiser accuracy" has no sharp value. Measured on 800 random profiles: max relative
# moment error 6.6e-3 (L <= 4), one thorough run saw 1.9e-2; the bound asserted is 0.1, which still
# separates a fit of the wrong moments (O(1) error) from optimiser noise.
