"""C05 -- the infinite screen evolves by exactly one row per step, for any history.

Invariant hook around every operation of random operation histories on the live
objects (state named by the property: `_scrn`, `_R`), plus the stability clause for
the von Karman variant: spectral radius and Stein residual of the *observed* recursion
and bounded-progress runs from hostile starting screens.
"""
import copy

import numpy as np

from aomon.checks.c04 import build, probe_maps, check_residuals_distinct
from aomon.core import digest
from aomon.oracles import vk
from aomon.probes import ScriptedGenerator, RecordingGenerator, ProbeNotApplicable

LEVEL = "exploration"
TECHNIQUE = "state-invariant hook around every operation of random histories on the live objects; observed-recursion stability analysis (spectral radius, Stein residual) and bounded-progress executions"
LEVEL_TEXT = ("Random histories of 60-400 operations (add_row, read, repr/str, deepcopy-read, reseeding / drawing from NumPy's global generator) "
              "on both variants, including requested sizes whose internal size is larger (20->33, 64->65, 100->129) and histories longer than "
              "the internal buffer; after every operation the exposed shape, finiteness, the exact one-row shift, the predicted new row "
              "(observed map applied to the recorded draws), every other attribute and the generator state are checked; the innovation of every row is recovered from the observed row and must be a fresh run of the object's own stream (650-row runs). Stability: "
              "rho(F) < 1, decay of a constant offset and the Stein residual for the observed (A, B) down to pixel scales of 1.6e-5 L0 (below 1e-5 L0: known finding), contraction with zero innovations from hostile screens "
              "(constant 1e6, checkerboard, spike, noise) for 200-2000 rows, finiteness for 1000-5000 rows with innovations. 'However many "
              "rows' is restated as this bounded progress. Histories also run on screens that ask for more stencil columns than they have rows (1-8 pixels). Exploration over histories.")
LEVEL_NOTE = "Trusted: aomon/oracles/vk.py, NumPy eigenvalues. Stability is claimed (and checked) for the von Karman variant only."
RULE = "case = (variant, requested size, parameters, history seed) or stability configuration; non-trivial when the history has >= 10 add_row steps; distinct by parameters and history seed"
ASSUMPTIONS = ["reads are .scrn, repr(), str(), copy.deepcopy(obj).scrn"]
REQUIRED = ["infinitephasescreen.py:PhaseScreen.add_row", "infinitephasescreen.py:PhaseScreen.scrn"]
REQUIRED_COUNTERS = ["innovation_residuals_compared", "ops:add_row", "ops:read", "ops:repr", "ops:global_rng", "shift_checks", "stability_configs", "histories_longer_than_buffer"]
TIMEOUT = {"quick": 900, "thorough": 7200}
EPS32 = float(np.finfo(np.float32).eps)


def plan(tier, seed):
    return [{"shard": i, "histories": 2 if tier == "quick" else 200, "stab": 1 if tier == "quick" else 24,
             "long_rows": 1000 if tier == "quick" else 5000} for i in range(16)]


def attr_digest(obj, skip=("_scrn", "_R", "random_seed")):
    out = {}
    for k, v in sorted(vars(obj).items()):
        if k in skip or k.startswith("_"):   # private scratch state (buffers, pointers) may legitimately change
            continue
        if isinstance(v, np.ndarray):
            out[k] = ("nd", digest(v))
        elif isinstance(v, (int, float, str, tuple, bool, type(None), np.integer, np.floating)):
            out[k] = ("v", repr(v))
        else:
            out[k] = ("o", type(v).__name__)
    return out


def history(ctx, aotools, variant, nreq, ps, r0, L0, extra, rng, n_ops, all_add=False):
    from scipy import linalg
    wit = {"variant": variant, "requested_size": nreq, "pixel_scale": ps, "r0": r0, "L0": L0, "columns_or_length_factor": extra, "ops": n_ops}
    try:
        pg = ScriptedGenerator([])
        twin = build(aotools, variant, nreq, ps, r0, L0, extra, pg)
        M, B, _ = probe_maps(ctx, twin, pg, need_B=False) if twin._scrn.size <= 1500 else (None, None, None)
        if M is not None and B is None:
            ctx.count("screens_whose_innovations_cannot_be_scripted")     # e.g. drawn in blocks: clauses that need B are not judged
        rec = RecordingGenerator(int(rng.integers(0, 2 ** 31)))
        scr = build(aotools, variant, nreq, ps, r0, L0, extra, rec)
    except (linalg.LinAlgError, np.linalg.LinAlgError):
        ctx.count("constructions_raising_LinAlgError")
        return
    nint = scr._scrn.shape[1]
    nrows_int = scr._scrn.shape[0]
    ctx.case("history:" + variant, key=(variant, nreq, ps, r0, L0, extra, n_ops, int(rng.integers(0, 2 ** 31))), nontrivial=n_ops >= 20,
             sample=dict(wit, internal_shape=scr._scrn.shape))
    if variant == "fried":
        want_int = 1
        while want_int + 1 < nreq:
            want_int *= 2
        want_int = max(want_int + 1, 2) if nreq > 2 else nint
        ctx.check(nint >= nreq, "internal_size_smaller_than_requested", "internal %d < requested %d" % (nint, nreq), wit)
    n_add = 0
    base_attrs = attr_digest(scr)
    used = []
    n_init_draws = len(rec.draws)
    Bpinv = None
    resid = []
    if B is not None:
        sv = np.linalg.svd(B, compute_uv=False)
        if sv.min() > 1e-9 * sv.max():
            Bpinv = np.linalg.pinv(B)
    ops = rng.choice(["add", "add", "add", "read", "repr", "deep", "glob"], n_ops) if not all_add else np.array(["add"] * n_ops)
    for op in ops:
        before_int = scr._scrn.copy()
        before_exp = np.array(scr.scrn, copy=True)
        st_before = copy.deepcopy(rec.bit_generator.state)
        nd = len(rec.draws)
        if op == "add":
            ret = scr.add_row()
            n_add += 1
            ctx.count("ops:add_row")
            exp = np.array(scr.scrn, copy=True)
            ctx.count("shift_checks")
            if not ctx.check(exp.shape == (nreq, nreq), "shape_after_add_row:" + variant, "exposed shape %s, requested (%d,%d) after %d rows" % (exp.shape, nreq, nreq, n_add), wit):
                return
            ctx.check(scr._scrn.shape == before_int.shape, "internal_shape_changed", "working array went from %s to %s" % (before_int.shape, scr._scrn.shape), wit)
            ctx.check(bool(np.all(np.isfinite(scr._scrn))), "nonfinite", "non-finite value after %d rows" % n_add, wit)
            ctx.check(np.array_equal(exp[1:], before_exp[:-1]), "shift_by_one_row:" + variant + (":beyond_buffer" if n_add > nrows_int else ""),
                      "after add_row #%d the old rows are not the previous screen shifted down by exactly one" % n_add, wit)
            ctx.check(np.array_equal(scr._scrn[1:], before_int[:-1]), "internal_shift_by_one_row", "working array not shifted by one row at step %d" % n_add, wit)
            ctx.check(ret is not None and np.array_equal(np.asarray(ret), exp), "add_row_return_value", "add_row() does not return the new exposed screen", wit)
            one_per_row = len(rec.draws) == nd + 1 and rec.draws[-1]["size"] is not None and int(np.prod(rec.draws[-1]["size"])) == nint
            if not one_per_row:
                ctx.count("rows_with_another_draw_pattern(not judged)")      # e.g. innovations drawn in blocks: legal
            if M is not None:
                resid.append(scr._scrn[0] - M @ before_int.ravel())
            if B is not None:
                sc = float(np.abs(before_int).max()) * float(np.abs(M).sum(axis=1).max()) + 5 * float(np.abs(B).sum(axis=1).max()) + 1e-300
                if one_per_row:
                    ctx.count("predicted_rows")
                    b = np.asarray(rec.draws[-1]["value"], float).ravel()
                    want = M @ before_int.ravel() + B @ b
                    ctx.close("new_row_is_predicted", scr._scrn[0], want, 1e-10 * sc, "new_row_not_predicted:" + variant, wit, scale=sc)
                # the innovation actually used, recovered from the observed row: it must come from the object's own stream
                # (standard-normal numbers the generator produced) and must never be used for two rows
                if Bpinv is not None:
                    b_used = Bpinv @ (scr._scrn[0] - M @ before_int.ravel())
                    used.append(b_used)
                    stream = np.concatenate([np.asarray(d_["value"], float).ravel() for d_ in rec.draws[n_init_draws:]]) if len(rec.draws) > n_init_draws else np.zeros(0)
                    ctx.count("innovations_recovered")
                    pos = np.where(np.abs(stream - b_used[0]) <= 1e-6 * (1 + abs(b_used[0])))[0]
                    found = any(p + nint <= len(stream) and np.allclose(stream[p:p + nint], b_used, atol=1e-6 * (1 + float(np.abs(b_used).max()))) for p in pos)
                    ctx.check(found, "innovation_not_from_own_stream:" + variant, "the innovation of add_row #%d is not a run of numbers drawn from the object's generator" % n_add, wit)
                ctx.check(np.array_equal(exp[0], scr._scrn[0][:nreq]), "exposed_row0_is_new_row", "row 0 of the exposed screen is not the new row", wit)
        else:
            if op == "read":
                a = scr.scrn
                b_ = scr.scrn
                ctx.count("ops:read")
                ctx.check(np.array_equal(a, b_) and a.shape == (nreq, nreq), "read_not_idempotent", "two reads differ / wrong shape", wit)
            elif op == "repr":
                repr(scr)
                str(scr)
                ctx.count("ops:repr")
            elif op == "deep":
                c = copy.deepcopy(scr)
                ctx.check(np.array_equal(c.scrn, before_exp), "deepcopy_differs", "deep copy exposes a different screen", wit)
                ctx.count("ops:read")
            else:
                np.random.seed(int(rng.integers(0, 2 ** 31)))
                np.random.standard_normal(17)
                ctx.count("ops:global_rng")
            ctx.check(np.array_equal(scr._scrn, before_int) and np.array_equal(np.asarray(scr.scrn), before_exp), "read_alters_screen:" + op,
                      "operation %r changed the screen" % op, wit)
            ctx.check(rec.bit_generator.state == st_before and len(rec.draws) == nd, "read_alters_random_stream:" + op,
                      "operation %r consumed random numbers" % op, wit)
        ctx.check(attr_digest(scr) == base_attrs, "other_attribute_changed:" + op, "an attribute other than the screen / generator changed", wit)
    if n_add > nrows_int + 1:
        ctx.count("histories_longer_than_buffer")
    # the innovation part of every row (row - A.stencil = B.b) must be a fresh vector, however the innovations are drawn
    check_residuals_distinct(ctx, resid, "innovation_reused:" + variant, wit)
    if len(used) >= 2:          # every row gets a fresh innovation
        U = np.array(used)
        order = np.argsort(U[:, 0])
        Us = U[order]
        same = np.where(np.abs(np.diff(Us[:, 0])) <= 1e-7 * (1 + np.abs(Us[:-1, 0])))[0]
        reused = [int(k) for k in same if np.allclose(Us[k], Us[k + 1], atol=1e-6)]
        ctx.count("oracle_evals")
        if reused:
            a_, b_ = sorted((int(order[reused[0]]), int(order[reused[0] + 1])))
            ctx.fail("innovation_reused:" + variant, "add_row #%d and #%d used the same innovation vector (of %d rows)" % (a_ + 1, b_ + 1, len(used)), wit)


class _FineRegime:
    """Below ~1e-5 L0 the stencil covariance is conditioned beyond double precision (1 - rho ~ 1e-7 is not resolved);
    every stability failure there is one mechanism, recorded as a known finding -- above it each clause is its own."""

    def __init__(self, ctx):
        self._c = ctx

    def __getattr__(self, n):
        return getattr(self._c, n)

    def _m(self, mech):
        return "stability:unstable_or_inexact:pixel_scale_below_1e-5_L0" if mech.startswith("stability:") else mech

    def check(self, cond, mechanism, message, witness=None):
        return self._c.check(cond, self._m(mechanism), message, witness)

    def close(self, name, got, want, tol, mechanism, witness=None, scale=None):
        return self._c.close(name, got, want, tol, self._m(mechanism), witness, scale)

    def fail(self, mechanism, message, witness=None):
        return self._c.fail(self._m(mechanism), message, witness)


def stability(ctx, aotools, nx, ps, r0, L0, ncol, rng, long_rows):
    from scipy import linalg
    if ps / L0 < 1e-5:
        ctx = _FineRegime(ctx)
        ctx.count("stability_configs_below_1e-5_L0")
    wit = {"nx": nx, "pixel_scale": ps, "r0": r0, "L0": L0, "n_columns": ncol, "pixel_scale/L0": ps / L0}
    try:
        # a sibling with the same geometry but another r0 is built first in the same process: state shared between
        # instances (e.g. a cache with an incomplete key) would then reach the object under test
        build(aotools, "vk", nx, ps, r0 * float(rng.uniform(1.5, 4)), L0, ncol, ScriptedGenerator([]))
        g = ScriptedGenerator([])
        scr = build(aotools, "vk", nx, ps, r0, L0, ncol, g)
    except (linalg.LinAlgError, np.linalg.LinAlgError):
        ctx.count("constructions_raising_LinAlgError")
        return
    M, B, step = probe_maps(ctx, scr, g, need_B=False)
    if B is None:
        ctx.count("screens_whose_innovations_cannot_be_scripted")       # the Stein residual (needs B) is then not judged
    ctx.count("stability_configs")
    resp = np.where(np.abs(M).max(axis=0) > 0)[0]
    depth = int(resp.max() // nx) + 1 if len(resp) else 1        # rows of the screen the recursion reads
    ctx.case("stability", key=(nx, ps, r0, L0, ncol), nontrivial=True, sample=dict(wit, rows_read=depth))
    ns = depth * nx
    F = np.zeros((ns, ns))
    F[:nx, :] = M[:, :ns]
    if depth > 1:
        F[nx:, :ns - nx] = np.eye(ns - nx)
    G = np.zeros((ns, nx))
    if B is not None:
        G[:nx] = B
    # a constant offset must decay (otherwise it is never forgotten and the statistics cannot converge to the model):
    # the response of the new row to a constant screen is the row sum of the observed map; for the conditional
    # von Karman law it is 1 - delta with delta > 0 (measured >= 6e-7 down to pixel scales of 7e-7 L0)
    rowsum = M.sum(axis=1)
    ctx.metric_min("min:one_minus_response_to_constant_screen", float(1 - rowsum.max()))
    ctx.check(float(rowsum.max()) <= 1 - 1e-9, "stability:constant_offset_never_forgotten",
              "a constant screen is reproduced with gain %.12f: a piston offset never decays" % float(rowsum.max()), wit)
    rho = float(np.abs(np.linalg.eigvals(F)).max())
    ctx.metric("spectral_radius_max", rho)
    ctx.metric_min("min:one_minus_spectral_radius", 1 - rho)
    ctx.check(rho <= 1 + 1e-6, "stability:spectral_radius_ge_1", "spectral radius of the row recursion is %.8f" % rho, wit)
    if 1 - rho < 1e-6:
        ctx.note("spectral radius within 1e-6 of 1 for %r: stability inconclusive for this configuration" % (wit,))
        return
    # Stein equation with the theoretical covariance of the state
    ii, jj = np.divmod(np.arange(ns), nx)
    P = np.stack([ii, jj], axis=1).astype(float) * ps
    d = np.sqrt(((P[:, None, :] - P[None, :, :]) ** 2).sum(-1))
    Pth = vk.covariance(d, r0, L0)
    B0 = vk.variance(r0, L0)
    anorm = float(np.abs(F).sum(axis=1).max())
    res = Pth - F @ Pth @ F.T - G @ G.T
    evp = np.linalg.eigvalsh(Pth)
    kappa = float(evp.max() / max(evp.min(), 1e-300 * evp.max()))
    if B is not None:
        ctx.metric("stein_residual/(eps64 cond B0 (1+|A|)^2)", float(np.abs(res).max() / (2.2e-16 * kappa * B0 * (1 + anorm) ** 2)))
        ctx.close("stein_residual", F @ Pth @ F.T + G @ G.T, Pth, (1000 * 2.2e-16 * kappa + 1e-12) * B0 * (1 + anorm) ** 2,
                  "stability:stationary_covariance_is_not_von_karman", wit, scale=B0)
    # bounded progress, real executions: zero innovations from hostile screens must contract like rho^K
    shape = scr._scrn.shape
    K = int(rng.choice([200, 600, 2000]))
    starts = {"constant_1e6": np.full(shape, 1e6), "checkerboard": 1e3 * (-1.0) ** np.add.outer(np.arange(shape[0]), np.arange(shape[1])),
              "spike": np.zeros(shape), "noise": 1e2 * rng.standard_normal(shape)}
    starts["spike"][0, nx // 2] = 1e6
    FK = np.linalg.matrix_power(F, K)
    nFK = float(np.linalg.norm(FK, 2))
    ctx.metric("|F^K|/rho^K (transient growth of the observed recursion)", nFK / rho ** K if rho ** K > 1e-280 else 0.0)
    if rho ** K < 1e-3:
        ctx.check(nFK < 1.0, "stability:powers_do_not_contract", "|F^%d| = %.3g although rho^K = %.3g" % (K, nFK, rho ** K), wit)
    for name, s0 in starts.items():
        scr._scrn = s0.copy()
        g.script = []
        n0 = float(np.linalg.norm(s0[:depth]))
        scr.add_row()
        if not np.array_equal(scr._scrn[1:], s0[:-1]):
            # the object keeps its rows somewhere else (e.g. a ring buffer) and a start screen cannot be injected
            # through `_scrn`: these executions would not start where the recursion is evaluated -- not judged
            ctx.count("start_screen_injection_not_honoured(not judged)")
            break
        for _ in range(K - 1):
            scr.add_row()
        sK = scr._scrn[:depth].ravel()
        nK = float(np.linalg.norm(sK))
        floor = 1e-9 * n0 * max(nFK, 1e-300) + 1e-200
        # the real execution follows the observed recursion ...
        ctx.close("execution_follows_recursion:" + name, sK, FK @ s0[:depth].ravel(), 1e-7 * nFK * n0 + 1e-200, "stability:execution_differs_from_recursion", dict(wit, start=name, K=K))
        # ... and contracts as its powers do (bounded progress)
        ctx.check(np.isfinite(nK) and nK <= 1.001 * nFK * n0 + floor, "stability:no_contraction:" + name,
                  "after %d zero-innovation rows |state| = %.3g, start %.3g, |F^K| = %.3g, rho^K = %.3g" % (K, nK, n0, nFK, rho ** K), dict(wit, start=name, K=K))
    # innovations on: stays finite and at the model's scale
    rec = RecordingGenerator(int(rng.integers(0, 2 ** 31)))
    scr2 = build(aotools, "vk", nx, ps, r0, L0, ncol, rec)
    mx = 0.0
    for _ in range(long_rows):
        scr2.add_row()
    mx = float(np.abs(scr2._scrn).max())
    ctx.check(np.isfinite(mx) and mx <= 50 * np.sqrt(B0), "stability:diverges_with_innovations",
              "after %d rows max |phase| = %.3g, model sigma = %.3g" % (long_rows, mx, np.sqrt(B0)), wit)
    ctx.check(scr2.scrn.shape == (nx, nx), "shape_after_many_rows", "shape %s after %d rows" % (scr2.scrn.shape, long_rows), wit)


def long_history_wide_screen(ctx, aotools, rng, nx, steps):
    """A wide screen (megabytes per frame) stepped more often than it has rows: buffer management that is renewed every few MiB of
    rows must still give exactly one row per step."""
    scr = aotools.PhaseScreenVonKarman(nx, 0.05, 0.2, 30.0, random_seed=int(rng.integers(0, 2 ** 31)), n_columns=1)
    wit = {"variant": "vk", "requested_size": nx, "steps": steps, "n_columns": 1}
    ctx.case("history:wide_screen", key=("wide", nx, steps), nontrivial=True, sample=wit)
    prev = np.array(scr.scrn, copy=True)
    for k in range(steps):
        scr.add_row()
        cur = np.asarray(scr.scrn)
        ctx.count("shift_checks")
        ctx.count("ops:add_row")
        if not ctx.check(cur.shape == (nx, nx), "shape_after_add_row:vk:wide_screen", "exposed shape %s after %d rows" % (cur.shape, k + 1), wit):
            return
        if not ctx.check(np.array_equal(cur[1:], prev[:-1]), "shift_by_one_row:vk:wide_screen",
                         "after add_row #%d of a %d-pixel screen the old rows are not the previous screen shifted down by exactly one" % (k + 1, nx), wit):
            return
        if k % 64 == 0:
            ctx.check(bool(np.isfinite(cur[0]).all()), "nonfinite", "non-finite value after %d rows" % (k + 1), wit)
        prev = np.array(cur, copy=True)


def fine_scale_statistics(ctx, aotools, rng, rows, finest=False):
    """Statistical monitor of "the statistics converge to the model and stay there" at the finest scale the screen has: the
    variance of the second difference along each newly added row, E[(x[j-1] - 2 x[j] + x[j+1])^2] = 4 D(p) - D(2p), carried by the
    weakest innovation modes. Sample mean over rows x (nx - 2) pixels (relative standard error ~ sqrt(2 / samples), 1-2 %);
    asserted within 20 %. Judged for pixel scales >= 1.5e-5 L0 (measured 0.973 .. 1.031 over 240 configurations there; 1.06-1.07
    at 1.0-1.2e-5 L0, next to the regime of the known finding)."""
    from scipy import linalg
    nx = int(rng.integers(8, 19))
    L0 = float(10 ** rng.uniform(0, 2))
    ps = float(L0 * (10 ** rng.uniform(np.log10(1.5e-5), -4) if rng.random() < 0.6 else 10 ** rng.uniform(-4, -2)))
    if finest:
        ps = float(L0 * rng.uniform(1.5e-5, 2.2e-5))      # always present: the finest sampling at which the recursion is still exact
    r0 = float(10 ** rng.uniform(-1.3, 0))
    ncol = int(rng.integers(1, 4))
    wit = {"nx": nx, "pixel_scale": ps, "r0": r0, "L0": L0, "n_columns": ncol, "pixel_scale/L0": ps / L0, "rows": rows}
    try:
        scr = aotools.PhaseScreenVonKarman(nx, ps, r0, L0, random_seed=int(rng.integers(0, 2 ** 31)), n_columns=ncol)
    except (linalg.LinAlgError, np.linalg.LinAlgError):
        ctx.count("constructions_raising_LinAlgError")
        return
    acc, n = 0.0, 0
    for k in range(rows + 300):
        scr.add_row()
        if k >= 300:                      # the initial FFT screen has left the stencil
            r = np.asarray(scr.scrn[0], dtype=np.float64)
            d2 = r[:-2] - 2 * r[1:-1] + r[2:]
            acc += float((d2 ** 2).sum())
            n += d2.size
    model = 4 * float(vk.structure_function(ps, r0, L0)) - float(vk.structure_function(2 * ps, r0, L0))
    ratio = acc / n / model
    ctx.case("fine_scale_statistics", key=("fine", nx, ps, r0, L0, ncol), nontrivial=True, sample=dict(wit, second_difference_variance_over_model=ratio, samples=n))
    ctx.count("fine_scale_statistic_samples", n)
    ctx.metric("max|second_difference_variance/model - 1|", abs(ratio - 1))
    ctx.check(0.8 <= ratio <= 1.2, "stability:stationary_statistics:second_difference_variance",
              "variance of the second difference along new rows is %.3f x the von Karman value (%d samples, rel. standard error ~%.3f)" % (ratio, n, np.sqrt(2.0 / n)), wit)


def run(ctx, spec):
    import aotools
    rng = ctx.rng
    for hcount in range(spec["histories"]):
        for variant in ("vk", "fried"):
            if variant == "fried":
                nreq = int(rng.choice([4, 5, 6, 8, 9, 12, 17, 20, 33] + ([64, 100] if hcount == 0 and spec["shard"] < 2 else [])))
                extra = int(rng.integers(1, 4)) if nreq <= 33 else 1
            else:
                nreq = int(rng.integers(4, 30))
                extra = int(rng.integers(1, 5))
            L0 = float(10 ** rng.uniform(0, 2))
            ps = float(L0 * 10 ** rng.uniform(-4.5, -0.6))
            r0 = float(10 ** rng.uniform(-1.3, 0))
            n_ops = int(rng.integers(60, 400)) if nreq <= 33 else 30
            history(ctx, aotools, variant, nreq, ps, r0, L0, extra, rng, n_ops)
    # more stencil columns requested than the screen has rows (n_columns > nx_size; includes a 1-pixel screen with the default of 2):
    # a legal request -- the stencil is what exists of it -- and the screen must evolve as any other
    nsmall = [1, 2, 3, 4, 5, 8][spec["shard"] % 6]
    history(ctx, aotools, "vk", nsmall, 0.1, 0.2, 20.0, nsmall + 1 + (spec["shard"] // 6) % 3, rng, 60)
    # extreme sampling: the construction either refuses (LinAlgError, counted) or must give a stable recursion
    if spec["shard"] < 6:
        ext = [1e-6, 1e-7, 1e-8, 1e-9, 1e-10, 3e-12][spec["shard"]]
        stability(ctx, aotools, int(rng.integers(6, 14)), 100.0 * ext, 0.2, 100.0, 2, rng, 200)
    # turbulence so weak that the innovation variances are ~1e-10 rad^2 and below: they must still be the model's
    psw = 0.05 * float(10 ** rng.uniform(-1, 1))
    stability(ctx, aotools, int(rng.integers(5, 14)), psw, psw * float(10 ** rng.uniform(4.5, 7)), psw * float(10 ** rng.uniform(1.5, 3)), int(rng.integers(1, 3)), rng, 200)
    # one long run of nothing but add_row on a small screen (several hundred rows: block-wise bookkeeping must not repeat)
    history(ctx, aotools, "vk" if spec["shard"] % 2 else "fried", int(rng.integers(4, 9)), 0.05, 0.2, 20.0, 1, rng, 650, all_add=True)
    if spec["shard"] == 5:
        long_history_wide_screen(ctx, aotools, rng, 512, 1700)
    if spec["shard"] == 9:
        long_history_wide_screen(ctx, aotools, rng, 1024, 1100)
    for s in range(max(1, spec["stab"] // 4)):
        fine_scale_statistics(ctx, aotools, rng, 3000 if spec["stab"] <= 1 else 6000, finest=(s == 0 and spec["shard"] % 4 == 0))
    for s in range(spec["stab"]):
        nx = int(rng.integers(5, 22))
        L0 = float(10 ** rng.uniform(0, 2))
        # from coarse sampling down to pixel scales of 1e-5 L0, where the stencil covariance is extremely ill conditioned
        ps = float(L0 * 10 ** rng.uniform(-4.8, -0.6))
        stability(ctx, aotools, nx, ps, float(10 ** rng.uniform(-1.3, 0)), L0, int(rng.integers(1, 4)), rng, spec["long_rows"])
