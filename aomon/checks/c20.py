"""C20 -- library calls are pure: arguments are never modified, no hidden state.

Sanitizers around every public callable (enumerated again at run time; a public callable
with neither a recipe nor a written exclusion makes the run inconclusive):
  * shadow pass  -- digest (bytes, shape, dtype, strides, flags) of every array argument before / after;
  * trap pass    -- every array argument handed over as a read-only view: an in-place write
                    raises at the faulting line;
  * global-state monitor -- NumPy / Python RNG states, numpy error and print settings, cwd,
                    environment and the package's module-level tables, before / after;
  * determinism  -- equal arguments give equal results, whatever ran in between;
  * programs     -- random call sequences on a shared pool of arrays executed in two
                    different orders and with each call isolated on a fresh pool.
"""
import copy
import importlib
import inspect
import io
import warnings
import contextlib
import os
import pkgutil
import random

import numpy as np

from aomon.core import digest
from aomon.workloads import recipes

LEVEL = "exploration"
TECHNIQUE = "argument write-sanitizer (read-only views trap in-place writes) + digest shadow + global-state monitor around every public callable; order-permuted / isolated program executions"
LEVEL_TEXT = ("All 96 public callables found by introspection are called through recipes (93) or carry a written exclusion (3); every array "
              "argument is checked for bit-identical content, shape, dtype, strides after the call in C / Fortran / negative-stride / sliced "
              "layouts and several dtypes, and is also passed as a read-only view so that any in-place write traps with a traceback; global "
              "state is compared before and after; calls are repeated with equal arguments after unrelated calls; random programs on a "
              "shared pool of arrays are executed in two orders and isolated, and all operations in two fresh interpreters in opposite orders; results and pool must agree. Arrays already returned are kept uncopied and must not change during later calls (2600-step runs); 15 batch-capable functions are compared item by item with the single-item call. Image-processing, interpolation and transform callables are also exercised on frames containing NaN and +-inf pixels (arguments must stay byte-identical). Exploration over programs.")
LEVEL_NOTE = "Trusted: NumPy's read-only flag and blake2b digests. Results that alias an argument (angularSpectrum with z = 0 returns its input) are recorded, not judged."
RULE = "case = (callable, recipe variant, layout, dtype, pass) or one program; non-trivial when the call has at least one array argument; distinct by those"
ASSUMPTIONS = ["recipes use valid, small inputs; an exception in a dtype/layout *variant* that the plain call does not raise is recorded, not judged"]
REQUIRED_COUNTERS = ["returned_array_stability_checks", "batch_items_compared", "fresh_process_orders", "callables_with_recipe", "shadow_checks", "trap_calls", "determinism_checks", "global_state_checks", "programs"]
TIMEOUT = {"quick": 1200, "thorough": 7200}


def plan(tier, seed):
    return [{"shard": i, "n_shards": 16, "reps": 1 if tier == "quick" else 30, "programs": 2 if tier == "quick" else 300} for i in range(16)]


# ------------------------------------------------------------------ helpers
def enumerate_public(aotools):
    out = {}
    for m in pkgutil.walk_packages(aotools.__path__, "aotools."):
        if m.name.endswith("_version"):
            continue
        mod = importlib.import_module(m.name)
        for n, o in vars(mod).items():
            if n.startswith("_"):
                continue
            if (inspect.isfunction(o) or inspect.isclass(o)) and getattr(o, "__module__", None) == m.name:
                out[m.name.replace("aotools.", "") + ":" + n] = o
    return out


def walk_arrays(obj, path="", out=None):
    out = [] if out is None else out
    if isinstance(obj, np.ndarray):
        out.append((path, obj))
    elif isinstance(obj, (list, tuple)):
        for i, v in enumerate(obj):
            walk_arrays(v, "%s[%d]" % (path, i), out)
    elif isinstance(obj, dict):
        for k, v in obj.items():
            walk_arrays(v, "%s[%r]" % (path, k), out)
    return out


def sig(a):
    return (digest(a), a.shape, str(a.dtype), a.strides, a.flags["C_CONTIGUOUS"], a.flags["F_CONTIGUOUS"])


def transform(obj, f):
    if isinstance(obj, np.ndarray):
        return f(obj)
    if isinstance(obj, list):
        return [transform(v, f) for v in obj]
    if isinstance(obj, tuple):
        return tuple(transform(v, f) for v in obj)
    if isinstance(obj, dict):
        return {k: transform(v, f) for k, v in obj.items()}
    return obj


def layout(kind):
    def f(a):
        if a.ndim == 0:
            return a.copy()
        if kind == "C":
            return np.ascontiguousarray(a).copy()
        if kind == "F":
            return np.array(a, order="F", copy=True)
        if kind == "neg":
            sl = tuple(slice(None, None, -1) for _ in range(a.ndim))
            return np.ascontiguousarray(a[sl])[sl]
        if kind == "nonfinite":
            # a frame with dead / saturated pixels: NaN and inf are values like any other for purity
            b = np.ascontiguousarray(a).copy()
            if b.dtype.kind in "fc" and b.size >= 4:
                b.flat[b.size // 2] = np.nan
                b.flat[b.size - 1] = np.inf
                b.flat[1] = -np.inf
            return b
        big = np.zeros(tuple(2 * s + 1 for s in a.shape), dtype=a.dtype)      # strided view into a larger buffer
        sl = tuple(slice(1, 2 * s + 1, 2) for s in a.shape)
        big[sl] = a
        return big[sl]
    return f


def readonly(a):
    v = a.view()
    v.setflags(write=False)
    return v


def result_value(r):
    """A comparable value for whatever the library returned."""
    if hasattr(r, "scrn") and not isinstance(r, np.ndarray):
        r.add_row()
        return ("screen", np.array(r.scrn, copy=True))
    if hasattr(r, "make_covariance_matrix"):
        m = np.array(r.make_covariance_matrix(), copy=True)
        rec = np.array(r.make_tomographic_reconstructor(1e-6), copy=True)
        again = np.array(r.make_covariance_matrix(), copy=True)        # the same call on the same object: no state may carry over
        return ("covmat", m, rec, again)
    return r


def deep_equal(a, b):
    if isinstance(a, np.ndarray) or isinstance(b, np.ndarray):
        a, b = np.asarray(a), np.asarray(b)
        return a.shape == b.shape and a.dtype == b.dtype and bool(np.array_equal(a, b, equal_nan=a.dtype.kind in "fc"))
    if isinstance(a, (list, tuple)) and isinstance(b, (list, tuple)):
        return len(a) == len(b) and all(deep_equal(x, y) for x, y in zip(a, b))
    if isinstance(a, dict) and isinstance(b, dict):
        return a.keys() == b.keys() and all(deep_equal(a[k], b[k]) for k in a)
    if isinstance(a, float) and isinstance(b, float) and a != a and b != b:
        return True
    try:
        return bool(a == b)
    except Exception:
        return False


def global_state(aotools):
    st = np.random.get_state()
    ast = importlib.import_module("aotools.astronomy._astronomy")
    itp = importlib.import_module("aotools.interpolation")
    return {
        "numpy_global_rng": digest(st[1], st[2], st[3], st[4]),
        "python_random": digest(repr(random.getstate())),
        "numpy_errstate": repr(sorted(np.geterr().items())),
        "numpy_printoptions": repr(sorted((k, repr(v)) for k, v in np.get_printoptions().items())),
        "cwd": os.getcwd(),
        "environ": digest(repr(sorted(os.environ.items()))),
        "FLUX_DICTIONARY": repr(sorted(ast.FLUX_DICTIONARY.items())),
        "INTERP_KIND": repr(sorted(itp.INTERP_KIND.items())),
    }


def quiet_call(fn, args, kwargs):
    buf = io.StringIO()
    with contextlib.redirect_stdout(buf):
        return fn(*args, **kwargs)


# ------------------------------------------------------------------ per-callable passes
def exercise(ctx, aotools, name, fn, call, rng, lay, dt):
    short = name.split(":")[1]
    conv = layout(lay)
    def prep(a):
        b = conv(a)
        if dt is not None and b.dtype == np.float64 and b.ndim > 0:
            b = conv((b * (10 if np.dtype(dt).kind in "iu" else 1)).astype(dt))
        return b
    args = transform(copy.deepcopy(call["args"]), prep)
    kwargs = transform(copy.deepcopy(call["kwargs"]), prep)
    arrs = walk_arrays(args, "args") + walk_arrays(kwargs, "kwargs")
    wit = {"callable": name, "layout": lay, "dtype": str(np.dtype(dt)) if dt is not None else "as_given",
           "arrays": [(p, a.shape, str(a.dtype)) for p, a in arrs]}
    variant = (lay != "C") or (dt is not None)
    ctx.case("call:" + short, key=(name, repr([(p, a.shape, str(a.dtype)) for p, a in arrs]), lay, str(dt), repr(call["kwargs"].keys())), nontrivial=len(arrs) > 0,
             sample=wit if lay == "C" and dt is None else None)
    before = [sig(a) for _, a in arrs]
    g0 = global_state(aotools)
    try:
        res = quiet_call(fn, args, kwargs)
    except Exception as e:
        if variant:
            ctx.count("variant_calls_raising(not judged)")
            return None
        raise
    val = result_value(res)
    g1 = global_state(aotools)
    # (a) shadow
    for (p, a), b in zip(arrs, before):
        ctx.count("shadow_checks")
        ctx.count("oracle_evals")
        if sig(a) != b:
            what = "values" if (a.shape, str(a.dtype)) == (b[1], b[2]) else "shape/dtype"
            ctx.fail("argument_modified:%s" % short, "%s changed the %s of its argument %s (layout %s, dtype %s)" % (short, what, p, lay, wit["dtype"]), wit)
    # aliasing is recorded only
    for p, a in arrs:
        if isinstance(res, np.ndarray) and np.shares_memory(res, a):
            ctx.count("results_aliasing_an_argument(not judged)")
    # (d) global state
    ctx.count("global_state_checks")
    for k in g0:
        if g0[k] != g1[k]:
            ctx.count("oracle_evals")
            ctx.fail("global_state_changed:%s:%s" % (short, k), "%s changed global state %s" % (short, k), wit)
    # (b) trap: read-only views of fresh copies
    targs = transform(transform(copy.deepcopy(call["args"]), prep), readonly)
    tkw = transform(transform(copy.deepcopy(call["kwargs"]), prep), readonly)
    ctx.count("trap_calls")
    try:
        quiet_call(fn, targs, tkw)
    except ValueError as e:
        if "read-only" in str(e):
            import traceback
            tb = traceback.extract_tb(e.__traceback__)
            where = [f for f in tb if "/aotools/" in f.filename]
            loc = "%s:%d" % (os.path.basename(where[-1].filename), where[-1].lineno) if where else "?"
            ctx.count("oracle_evals")
            ctx.fail("writes_to_argument:%s" % short, "%s writes into a caller's array (trapped on a read-only view at %s): %s" % (short, loc, e), dict(wit, at=loc))
        else:
            ctx.count("trap_calls_raising_other(not judged)")
    except Exception:
        ctx.count("trap_calls_raising_other(not judged)")
    return val, args, kwargs


NONFINITE_FOR = ("centroid", "centre_of_gravity", "brightest_pixel", "quadCell", "cross_correlate", "contrast", "binImgs", "zoom", "azimuthal_average",
                 "encircled_energy", "ft", "image_processing", "interpolation")


def check_callable(ctx, aotools, name, fn, calls, rng, others):
    short = name.split(":")[1]
    for ci, call in enumerate(calls):
        base = exercise(ctx, aotools, name, fn, call, rng, "C", None)
        if base is None:
            continue
        val, args, kwargs = base
        if isinstance(val, tuple) and len(val) == 4 and isinstance(val[0], str) and val[0] == "covmat":
            ctx.count("determinism_checks")
            ctx.check(deep_equal(val[1], val[3]), "not_deterministic:make_covariance_matrix:repeated_on_one_object",
                      "make_covariance_matrix() called twice on one object returns different matrices", {"callable": name, "recipe": ci})
        # determinism / no hidden state: an unrelated call in between, then the same call again on equal arguments
        if call["seeded"]:
            oname, (ofn, ocalls) = others[int(rng.integers(0, len(others)))]
            try:
                quiet_call(ofn, copy.deepcopy(ocalls[0]["args"]), copy.deepcopy(ocalls[0]["kwargs"]))
            except Exception:
                pass
            again = result_value(quiet_call(fn, copy.deepcopy(call["args"]), copy.deepcopy(call["kwargs"])))
            ctx.count("determinism_checks")
            ctx.check(deep_equal(val, again), "not_deterministic:%s" % short, "%s returned a different result for equal arguments after an unrelated call to %s" % (short, oname.split(":")[1]),
                      {"callable": name, "recipe": ci, "unrelated": oname})
        # layout variants must not matter for purity (values are the same arrays)
        for lay in ("F", "neg", "strided"):
            out = exercise(ctx, aotools, name, fn, call, rng, lay, None)
            if out is not None and call["seeded"]:
                v2 = out[0]
                ctx.count("layout_results_compared")
                if not loose_equal(val, v2):
                    ctx.count("oracle_evals")
                    ctx.fail("layout_dependent_result:%s" % short, "%s gives a different result for the same values in %s layout" % (short, lay), {"callable": name, "layout": lay})
        if any(k in name for k in NONFINITE_FOR):
            ctx.count("nonfinite_pixel_calls")
            with np.errstate(all="ignore"), warnings.catch_warnings():
                warnings.simplefilter("ignore")
                exercise(ctx, aotools, name, fn, call, rng, "nonfinite", None)
        for dt in call["dtypes"]:
            exercise(ctx, aotools, name, fn, call, rng, "C", dt)
            exercise(ctx, aotools, name, fn, call, rng, "neg", dt)


def loose_equal(a, b, tol=1e-9):
    if isinstance(a, np.ndarray) or isinstance(b, np.ndarray):
        a, b = np.asarray(a), np.asarray(b)
        if a.shape != b.shape:
            return False
        if a.dtype.kind in "fc" or b.dtype.kind in "fc":
            with np.errstate(all="ignore"):
                sc = float(np.nanmax(np.abs(a))) if a.size else 0.0
                return bool(np.all((np.abs(a - b) <= tol * (sc + 1e-300)) | ((a != a) & (b != b)) | (a == b)))
        return bool(np.array_equal(a, b))
    if isinstance(a, (list, tuple)) and isinstance(b, (list, tuple)):
        return len(a) == len(b) and all(loose_equal(x, y, tol) for x, y in zip(a, b))
    if isinstance(a, dict) and isinstance(b, dict):
        return a.keys() == b.keys() and all(loose_equal(a[k], b[k], tol) for k in a)
    if isinstance(a, (float, np.floating)) and isinstance(b, (float, np.floating)):
        return (a != a and b != b) or abs(a - b) <= tol * (abs(a) + 1e-300)
    return deep_equal(a, b)


# ------------------------------------------------------------------ programs on a shared pool
def make_pool(rng_seed):
    g = np.random.default_rng(rng_seed)
    c0, c1 = np.arange(12)[:, None], np.arange(12)[None, :]
    img = np.exp(-((c0 - 5.2) ** 2 + (c1 - 6.7) ** 2) / 6.0) + 0.05 * g.random((12, 12)) + 0.01
    return {"img": img, "img2": img[::-1].copy() * 2, "stack": np.stack([img, img.T * 1.5, img * 0.5]), "vec": g.random(8) + 0.1,
            "vec32": (g.random(8) + 0.1).astype(np.float32), "field": g.standard_normal((12, 12)) + 1j * g.standard_normal((12, 12)),
            "mask": (g.random((12, 12)) < 0.7).astype(float), "prof_h": np.sort(g.random(8)) * 2e4 + 1, "prof_p": g.random(8) * 1e-14 + 1e-16}


def program_ops(aotools):
    A = aotools
    from aotools.turbulence import slopecovariance as sc
    from aotools.functions import karhunenLoeve as KL
    return [
        ("centre_of_gravity", lambda p: A.centre_of_gravity(p["img"], 0.2)), ("centre_of_gravity_stack", lambda p: A.centre_of_gravity(p["stack"], 0.3)),
        ("brightest_pixel", lambda p: A.brightest_pixel(p["img"], 0.3)), ("brightest_pixel_stack", lambda p: A.brightest_pixel(p["stack"], 0.2)),
        ("correlation_centroid", lambda p: A.correlation_centroid(p["img"], p["img2"], 0.1, 2)), ("correlation_centroid_stack", lambda p: A.correlation_centroid(p["stack"], p["img"])),
        ("rms_contrast", lambda p: A.rms_contrast(p["img"])), ("image_contrast", lambda p: A.image_contrast(p["img2"])),
        ("azimuthal_average", lambda p: A.azimuthal_average(p["img"])), ("encircled_energy", lambda p: A.encircled_energy(p["img2"], 0.6)),
        ("binImgs", lambda p: A.binImgs(p["stack"], 3)), ("zoom", lambda p: A.zoom(p["img"], 17)), ("zoom_rbs", lambda p: A.zoom_rbs(p["field"], (9, 14), 3)),
        ("ft2", lambda p: A.ft2(p["field"], 0.1)), ("ift2", lambda p: A.ift2(p["field"], 0.2)), ("ft", lambda p: A.ft(p["stack"], 0.3)), ("rft", lambda p: A.fouriertransform.rft(p["img"], 0.3)),
        ("angularSpectrum", lambda p: A.opticalpropagation.angularSpectrum(p["field"], 1e-6, 1e-3, 1.1e-3, 3.0)),
        ("twoStepFresnel", lambda p: A.opticalpropagation.twoStepFresnel(p["field"], 1e-6, 1e-3, 0.9e-3, 3.0)),
        ("lensAgainst", lambda p: A.opticalpropagation.lensAgainst(p["field"], 1e-6, 1e-3, 0.7)),
        ("phase_covariance", lambda p: A.phase_covariance(p["vec32"], 0.2, 25.0)), ("phase_covariance64", lambda p: A.phase_covariance(p["vec"], 0.2, 25.0)),
        ("structure_function_vk", lambda p: sc.structure_function_vk(p["vec"], 0.2, 25.0)), ("stf_vonKarman", lambda p: KL.stf_vonKarman(p["vec"], 3.0)),
        ("calculate_structure_function", lambda p: A.calculate_structure_function(p["img"], 3, 1)),
        ("calc_slope_temporalps", lambda p: A.calc_slope_temporalps(p["stack"])), ("isoplanaticAngle", lambda p: A.isoplanaticAngle(p["prof_p"], p["prof_h"], 6e-7)),
        ("coherenceTime", lambda p: A.coherenceTime(p["prof_p"], p["vec"] * 10)), ("equivalent_layers", lambda p: A.equivalent_layers(p["prof_h"], p["prof_p"], 3, p["vec"])),
        ("optimal_grouping_R0", lambda p: A.optimal_grouping(0, 3, p["prof_h"], p["prof_p"])), ("cn2_to_seeing", lambda p: A.cn2_to_seeing(p["prof_p"], 7e-7)),
        ("findActiveSubaps", lambda p: A.wfs.findActiveSubaps(4, p["mask"], 0.5, True)), ("photons_per_band", lambda p: A.photons_per_band(6.0, p["mask"], 0.1, 0.01, "H")),
        ("quadCell", lambda p: A.quadCell(p["stack"][:, :2, :2])), ("phaseFromZernikes", lambda p: A.phaseFromZernikes(p["vec"], 10)),
        ("cross_correlate", lambda p: A.image_processing.centroiders.cross_correlate(p["img"], p["img2"], 2)),
        ("ft_phase_screen_seeded", lambda p: A.ft_phase_screen(0.2, 12, 0.1, 20.0, 0.01, seed=5)), ("ft_phase_screen_seeded_r0b", lambda p: A.ft_phase_screen(0.35, 12, 0.1, 20.0, 0.01, seed=5)),
        ("ft_sh_phase_screen_seeded", lambda p: A.ft_sh_phase_screen(0.2, 12, 0.1, 20.0, 0.05, seed=6)),
        ("vk_screen_seeded", lambda p: result_value(A.PhaseScreenVonKarman(8, 0.1, 0.2, 20.0, random_seed=3))), ("vk_screen_seeded_r0b", lambda p: result_value(A.PhaseScreenVonKarman(8, 0.1, 0.33, 20.0, random_seed=3))),
        ("make_kl", lambda p: quiet_call(A.make_kl, (5, 12), {"ri": 0.25, "nr": 8})[0]), ("make_kl_more", lambda p: quiet_call(A.make_kl, (9, 12), {"ri": 0.25, "nr": 8})[0]),
        ("zernikeArray", lambda p: A.zernikeArray([2, 3, 7], 10, "rms", 0.2)), ("circle", lambda p: A.circle(3.3, 10, (0.5, 1.0))),
    ]


def run_program(ctx, aotools, rng, pid, ops):
    n = int(rng.integers(20, 61))
    seq = [int(v) for v in rng.integers(0, len(ops), n)]
    pool_seed = int(rng.integers(0, 2 ** 31))
    ctx.count("programs")
    ctx.case("program", key=("prog", pid, ctx.shard, ctx.seed), nontrivial=True, sample={"length": n, "calls": [ops[i][0] for i in seq[:25]]})

    def execute(order, pool):
        out = {}
        for pos in order:
            out[pos] = ops[seq[pos]][1](pool)
        return out

    ref_pool = make_pool(pool_seed)
    ref_sigs = {k: sig(v) for k, v in ref_pool.items()}
    iso = {}
    for pos in range(n):                       # every call isolated on a fresh pool
        iso[pos] = ops[seq[pos]][1](make_pool(pool_seed))
    for oname, order in (("forward", list(range(n))), ("permuted", [int(v) for v in rng.permutation(n)])):
        pool = make_pool(pool_seed)
        got = execute(order, pool)
        for k, v in pool.items():
            ctx.count("oracle_evals")
            if sig(v) != ref_sigs[k]:
                ctx.fail("program:pool_modified:%s" % k, "after the %s execution the shared array %r differs from its initial content" % (oname, k),
                         {"program": pid, "order": oname, "calls": [ops[i][0] for i in seq]})
        for pos in range(n):
            ctx.count("oracle_evals")
            if not deep_equal(got[pos], iso[pos]):
                prev = [ops[seq[q]][0] for q in order[:order.index(pos)]][-6:]
                ctx.fail("program:result_depends_on_history:%s" % ops[seq[pos]][0],
                         "%s returns a different result inside the %s execution than isolated (preceded by %s)" % (ops[seq[pos]][0], oname, prev),
                         {"program": pid, "order": oname, "position": pos, "preceding_calls": prev})
                break


def value_digest(v):
    if isinstance(v, np.ndarray):
        return digest(v)
    if isinstance(v, (list, tuple)):
        return digest(*[value_digest(x) for x in v])
    if isinstance(v, dict):
        return digest(*[(k, value_digest(x)) for k, x in sorted(v.items())])
    return digest(repr(v))


def fresh_process_orders(ctx, aotools, rng, ops):
    """Every program operation once, in two fresh interpreters that run them in opposite orders, and in this process:
    a result that depends on what the process did before (first-wins caches, module-level memo tables) differs."""
    import json
    import subprocess
    import tempfile
    from aomon import boot
    nops = len(ops)
    order = [int(v) for v in rng.permutation(nops)]
    pool_seed = int(rng.integers(0, 2 ** 31))
    results = {}
    for tag, od in (("order_A", order), ("order_B", order[::-1])):
        with tempfile.NamedTemporaryFile("w", suffix=".json", dir="/dev/shm", delete=False) as f:
            json.dump({"mode": "c20", "order": od, "pool_seed": pool_seed}, f)
            path = f.name
        try:
            env = dict(os.environ, PYTHONPATH=boot.VERIF, PYTHONHASHSEED="0")
            r = subprocess.run([boot.PY, "-m", "aomon.isolated", path], cwd=boot.VERIF, env=env, stdout=subprocess.PIPE, stderr=subprocess.PIPE, text=True, timeout=900)
            line = [l for l in r.stdout.splitlines() if l.startswith("DIGESTS ")]
            if not line:
                ctx.fail("fresh_process_run_failed", "fresh interpreter failed: %s" % (r.stderr or r.stdout)[-800:], {"order": tag})
                return
            results[tag] = json.loads(line[0][8:])
        finally:
            os.unlink(path)
    ctx.count("fresh_process_orders")
    pool = make_pool(pool_seed)
    here = {str(k): value_digest(ops[k][1](pool)) for k in range(nops)}
    ctx.case("fresh_process_orders", key=("fpo", ctx.shard, ctx.seed), nontrivial=True, sample={"operations": nops, "first_five_of_order_A": [ops[k][0] for k in order[:5]]})
    for k in range(nops):
        a, b, c = results["order_A"][str(k)], results["order_B"][str(k)], here[str(k)]
        ctx.count("oracle_evals")
        if not (a == b == c):
            ctx.fail("result_depends_on_process_history:%s" % ops[k][0],
                     "%s gives different results depending on what ran earlier in the process (order A / reversed order / this process: %s)" % (ops[k][0], [a == b, a == c, b == c]),
                     {"operation": ops[k][0], "order_A": [ops[i][0] for i in order][:12]})


def returned_arrays_stay_put(ctx, aotools, rng):
    """An array the library has handed out must not change when the library is called again (no buffer is shared with
    later results): digests of returned arrays, kept WITHOUT copying, are re-taken after further calls."""
    for cls, kw in ((aotools.PhaseScreenVonKarman, {"n_columns": 2}), (aotools.PhaseScreenKolmogorov, {"stencil_length_factor": 2})):
        scr = cls(int(rng.integers(6, 14)), 0.1, 0.2, 20.0, random_seed=int(rng.integers(0, 1000)), **kw)
        held = []
        for step in range(int(rng.integers(4, 12))):
            v = scr.scrn                     # a read ...
            held.append(("scrn read before step %d" % step, v, digest(np.asarray(v))))
            r = scr.add_row()                # ... and the value add_row returns
            held.append(("add_row() result of step %d" % step, r, digest(np.asarray(r))))
        ctx.case("returned_arrays:" + cls.__name__, key=(cls.__name__, len(held), float(np.asarray(held[0][1]).flat[0])), nontrivial=True)
        for what, arr, d in held:
            ctx.count("returned_array_stability_checks")
            ctx.count("oracle_evals")
            if digest(np.asarray(arr)) != d:
                ctx.fail("returned_array_changes_later:%s" % cls.__name__, "%s of %s was rewritten by a later call" % (what, cls.__name__), {"class": cls.__name__})
                break
    # ... also across a long run (a ring buffer that is repacked after ~1000 steps would rewrite old results)
    scr = aotools.PhaseScreenVonKarman(int(rng.integers(5, 9)), 0.1, 0.2, 20.0, random_seed=int(rng.integers(0, 1000)))
    held = []
    for step in range(2600):
        r = scr.add_row()
        if step < 8 or step % 397 == 0:
            held.append((step, r, digest(np.asarray(r))))
    ctx.case("returned_arrays:long_run", key=("long", float(np.asarray(held[0][1]).flat[0])), nontrivial=True)
    for step, arr, d in held:
        ctx.count("returned_array_stability_checks")
        ctx.count("oracle_evals")
        if digest(np.asarray(arr)) != d:
            ctx.fail("returned_array_changes_later:long_run", "the screen returned by add_row() #%d was rewritten during the next %d calls" % (step, 2600 - step), None)
            break
    # plain functions: results of earlier calls are untouched by later calls on other data
    imgs = [np.random.default_rng(k).random((10, 10)) + 0.1 for k in range(3)]
    outs = []
    for im in imgs:
        for fn in (lambda a: aotools.ft2(a, 0.1), lambda a: aotools.binImgs(a, 2), lambda a: aotools.zoom(a, 15), lambda a: aotools.azimuthal_average(a),
                   lambda a: aotools.centre_of_gravity(a, 0.1), lambda a: aotools.phase_covariance(a, 0.2, 25.0), lambda a: aotools.circle(3, 10) * a):
            o = fn(im)
            outs.append((o, digest(np.asarray(o))))
    for o, d in outs:
        ctx.count("returned_array_stability_checks")
        ctx.check(digest(np.asarray(o)) == d, "returned_array_changes_later:function_result", "a function result changed after later calls", None)


def batch_item_consistency(ctx, aotools, rng):
    """Functions that accept stacks / leading batch axes return, per item, what the single-item call returns."""
    from aotools import fouriertransform as F
    from aotools.image_processing import centroiders as C
    from aotools.turbulence import temporal_ps, atmos_conversions as ac
    k = int(rng.integers(2, 6))
    n = int(rng.choice([6, 7, 8, 12]))
    c0, c1 = np.arange(n)[:, None], np.arange(n)[None, :]
    frames = np.stack([np.exp(-((c0 - n / 2.3 - 0.2 * i) ** 2 + (c1 - n / 1.8) ** 2) / 5.0) * (i + 1) + 0.02 * rng.random((n, n)) + 0.01 for i in range(k)])
    cplx = frames + 1j * rng.standard_normal(frames.shape)
    reg = [
        ("ft", lambda s: F.ft(s, 0.3), lambda x: F.ft(x, 0.3), cplx, 0), ("ift", lambda s: F.ift(s, 0.3), lambda x: F.ift(x, 0.3), cplx, 0),
        ("ft2", lambda s: F.ft2(s, 0.3), lambda x: F.ft2(x, 0.3), cplx, 0), ("ift2", lambda s: F.ift2(s, 0.3), lambda x: F.ift2(x, 0.3), cplx, 0),
        ("ft2_top_level", lambda s: aotools.ft2(s, 0.3), lambda x: aotools.ft2(x, 0.3), cplx, 0), ("ift2_top_level", lambda s: aotools.ift2(s, 0.3), lambda x: aotools.ift2(x, 0.3), cplx, 0),
        ("rft", lambda s: F.rft(s, 0.3), lambda x: F.rft(x, 0.3), frames, 0), ("rft2", lambda s: F.rft2(s, 0.3), lambda x: F.rft2(x, 0.3), frames, 0),
        ("binImgs", lambda s: aotools.binImgs(s[:, : n - n % 2, : n - n % 2], 2), lambda x: aotools.binImgs(x[: n - n % 2, : n - n % 2], 2), frames, 0),
        ("centre_of_gravity", lambda s: C.centre_of_gravity(s), lambda x: C.centre_of_gravity(x), frames, -1),
        ("brightest_pixel", lambda s: C.brightest_pixel(s, 0.3), lambda x: C.brightest_pixel(x, 0.3), frames, -1),
        ("quadCell", lambda s: C.quadCell(s[:, :2, :2]), lambda x: C.quadCell(x[:2, :2]), frames, -1),
        ("correlation_centroid", lambda s: C.correlation_centroid(s, frames[0].copy(), 0.1, 2), lambda x: C.correlation_centroid(x[None], frames[0].copy(), 0.1, 2)[:, 0], frames, -1),
        ("calc_slope_temporalps", lambda s: temporal_ps.calc_slope_temporalps(s)[0], lambda x: temporal_ps.calc_slope_temporalps(x)[0], frames, 0),
        ("isoplanaticAngle", lambda s: ac.isoplanaticAngle(s[:, 0, :] * 1e-14, s[:, 1, :] * 1e4 + 10), lambda x: ac.isoplanaticAngle(x[0, :] * 1e-14, x[1, :] * 1e4 + 10), frames, 0),
    ]
    for name, on_stack, on_item, data, axis in reg:
        st = on_stack(data.copy())
        ctx.case("batch:" + name, key=(name, k, n, float(np.abs(data).sum())), nontrivial=True, sample={"function": name, "stack_depth": k, "frame": n} if name == "ft2" else None)
        for i in range(k):
            it = np.asarray(on_item(data[i].copy()))
            got = np.take(np.asarray(st), i, axis=axis) if np.asarray(st).ndim > it.ndim else np.asarray(st)
            sc = float(np.abs(it).max()) + 1e-300
            ctx.count("batch_items_compared")
            ctx.close("batch_item:" + name, got, it.astype(got.dtype) if got.shape == it.shape else it, 1e-11 * sc, "batch_item_differs:" + name, {"function": name, "item": i, "stack_depth": k}, scale=sc)


def failed_calls_leave_no_trace(ctx, aotools, rng):
    """Calls that end in a documented exception (a screen too finely sampled to be constructed raises LinAlgError; malformed
    arguments raise) are calls too: no global state may be different afterwards, and later calls behave as before."""
    probes = (("PhaseScreenVonKarman", lambda: aotools.PhaseScreenVonKarman(8, 1e-8, 0.2, 100.0, random_seed=1)),
              ("PhaseScreenKolmogorov", lambda: aotools.PhaseScreenKolmogorov(9, 1e-10, 0.2, 100.0, random_seed=1)),
              ("circle", lambda: aotools.circle(3.0, 8, (1.0,))),
              ("zoom", lambda: aotools.zoom(np.ones((4, 4)), 6, 99)),
              ("binImgs", lambda: aotools.binImgs(np.ones(7), 2)),
              ("optimal_grouping", lambda: aotools.optimal_grouping(0, 3, np.arange(3.0), np.ones(2))))
    before_vals = (float(np.asarray(aotools.structure_function_vk(0.0, 0.2, 25.0))), repr(np.asarray(aotools.centre_of_gravity(np.zeros((2, 4, 4)))).tolist()))
    for name, fn in probes:
        g0 = global_state(aotools)
        raised = None
        try:
            quiet_call(fn, (), {})
        except Exception as e:
            raised = type(e).__name__
        g1 = global_state(aotools)
        ctx.case("failed_call:" + name, key=("failed", name), nontrivial=raised is not None, sample={"callable": name, "raised": raised})
        if raised is None:
            ctx.count("probe_calls_that_did_not_raise")
            continue
        ctx.count("failed_call_checks")
        ctx.count("global_state_checks")
        for k in g0:
            if g0[k] != g1[k] and not (name == "optimal_grouping" and k == "numpy_global_rng"):
                ctx.fail("global_state_changed:%s:%s:after_exception" % (name, k), "%s raised %s and left global state %s changed" % (name, raised, k), {"callable": name, "raised": raised})
    with warnings.catch_warnings():
        warnings.simplefilter("ignore")
        try:
            after_vals = (float(np.asarray(aotools.structure_function_vk(0.0, 0.2, 25.0))), repr(np.asarray(aotools.centre_of_gravity(np.zeros((2, 4, 4)))).tolist()))
        except Exception as e:
            after_vals = ("raised", repr(e))
    ctx.check(after_vals == before_vals, "result_depends_on_history:after_failed_call", "calls on degenerate inputs behave differently after an earlier call failed: %r vs %r" % (after_vals, before_vals), None)


def seed_objects_untouched(ctx, aotools, rng):
    """Seeds that are objects (SeedSequence, BitGenerator-free sequences, arrays) are arguments too: the same object used for
    two calls gives the same screen twice and is left as it was (SeedSequence.spawn, for one, counts the children it handed out)."""
    calls = (("ft_phase_screen", lambda sd: aotools.ft_phase_screen(0.2, 12, 0.1, 20.0, 0.01, seed=sd)),
             ("ft_sh_phase_screen", lambda sd: aotools.ft_sh_phase_screen(0.2, 12, 0.1, 20.0, 0.01, seed=sd)),
             ("PhaseScreenVonKarman", lambda sd: aotools.PhaseScreenVonKarman(8, 0.1, 0.2, 20.0, random_seed=sd).scrn),
             ("PhaseScreenKolmogorov", lambda sd: aotools.PhaseScreenKolmogorov(9, 0.1, 0.2, 20.0, random_seed=sd).scrn))
    k = int(rng.integers(0, 2 ** 31))
    for name, fn in calls:
        for kind, make, state in (("SeedSequence", lambda: np.random.SeedSequence(k), lambda o: (o.entropy, o.spawn_key, o.pool_size, o.n_children_spawned, digest(o.generate_state(4)))),
                                  ("int64_array", lambda: np.array([k, 3, 5], dtype=np.int64), lambda o: digest(o)),
                                  ("list", lambda: [k, 3, 5], lambda o: repr(o))):
            sd = make()
            before = state(sd)
            a = np.array(fn(sd), copy=True)
            b = np.array(fn(sd), copy=True)
            fresh = np.array(fn(make()), copy=True)
            ctx.case("seed_object:" + name, key=("seedobj", name, kind, k), nontrivial=True, sample={"callable": name, "seed_type": kind})
            ctx.count("seed_object_checks")
            ctx.count("oracle_evals")
            w = {"callable": name, "seed_type": kind}
            ctx.check(np.array_equal(a, b), "not_deterministic:%s:seed_object_reused" % name, "%s with the same %s object twice returns different screens" % (name, kind), w)
            ctx.check(np.array_equal(a, fresh), "not_deterministic:%s:seed_object_reused" % name, "%s: a used %s gives another screen than an equal fresh one" % (name, kind), w)
            ctx.check(state(sd) == before, "argument_modified:%s:seed_object" % name, "%s changed the state of the %s passed as seed" % (name, kind), w)


def run(ctx, spec):
    import aotools
    rng = ctx.rng
    public = enumerate_public(aotools)
    R = recipes.build(aotools)
    missing = [n for n in public if n not in R and n not in recipes.EXCLUDED]
    stale = [n for n in R if n not in public]
    ctx.count("public_callables", len(public) if spec["shard"] == 0 else 0)
    ctx.count("callables_excluded_with_reason", len([n for n in public if n in recipes.EXCLUDED]) if spec["shard"] == 0 else 0)
    if missing:
        raise RuntimeError("public callables without recipe or written exclusion: %s" % missing)
    names = sorted(n for n in public if n in R)
    mine = [n for i, n in enumerate(names) if i % spec["n_shards"] == spec["shard"]]
    allcalls = {}
    for n in names:
        try:
            allcalls[n] = (public[n], R[n](np.random.default_rng(1)))
        except Exception:
            pass
    others = [(n, v) for n, v in allcalls.items() if n.split(":")[1] in ("circle", "zernike_noll", "ft2", "centre_of_gravity", "ft_phase_screen", "gkl_basis", "optimal_grouping", "magnitude_to_flux")]
    for rep in range(spec["reps"]):
        for n in mine:
            ctx.count("callables_with_recipe", 1 if rep == 0 else 0)
            calls = R[n](rng)
            check_callable(ctx, aotools, n, public[n], calls, rng, others)
    if spec["shard"] % 4 == 1:
        seed_objects_untouched(ctx, aotools, rng)
    if spec["shard"] % 4 == 2:
        failed_calls_leave_no_trace(ctx, aotools, rng)
    for rep in range(spec["reps"]):
        returned_arrays_stay_put(ctx, aotools, rng)
        batch_item_consistency(ctx, aotools, rng)
    ops = program_ops(aotools)
    for p in range(spec["programs"]):
        run_program(ctx, aotools, rng, p, ops)
    if spec["shard"] % 4 == 0 or spec["reps"] > 1:
        fresh_process_orders(ctx, aotools, rng, ops)
