"""C04 -- infinite phase screen rows follow the exact conditional von Karman law.

State-level probing through the real add_row() path: the working screen (`_scrn`, the
state the property names) is set to chosen content, the innovation vector is scripted
through an injected numpy Generator, add_row() is called and the new row is read back.
Unit impulses on every pixel give the effective linear map M (new row = M . screen + B . b)
without assuming which pixels form the stencil; the identities are then checked on the
pixels that actually respond, at their true coordinates.
"""
import numpy as np

from aomon.oracles import vk
from aomon.probes import ScriptedGenerator, RecordingGenerator, ProbeNotApplicable, DrawLedger

LEVEL = "exploration"
TECHNIQUE = "state probing of the live object through add_row() with a scripted Generator (effective A, B observed), second-order identities vs float64 reference covariance; trace conformance with a recording Generator; numba bounds-check / no-JIT differential"
LEVEL_TEXT = ("For both variants, sizes 1..33 (quick) / ..70 (thorough) incl. sizes that are not 2^n+1, 1-5 stencil columns / length "
              "factors, pixel scale / L0 from 5e-6 to 0.3, r0 from 0.05 m to 3e7 pixels, integer-typed pixel scales and the same geometry in other length units, the effective maps A and B are *observed* (every pixel of the "
              "working screen as a unit impulse, every innovation as a unit draw) and must satisfy A Czz = Cxz and A Czz A^T + B B^T = Cxx "
              "for the theoretical covariance at the true pixel separations, in a structure-function metric that exposes 1 % geometry "
              "errors; linearity, zero offset, the Fried constant-shift law, and conformance of naturally generated rows to the observed "
              "map; with integer / None seeds a ledger of every Gaussian draw made by the generators the library creates shows that no number is used twice (initial screen vs rows). Screens come in families sharing geometry but differing in pixel scale, r0 or L0 inside one process. Live objects whose public build steps (makeAMatrix, makeBMatrix) are run again must keep the observed row map and innovation covariance. Exploration.")
LEVEL_NOTE = ("Trusted: aomon/oracles/vk.py. Tolerances scale with the condition number of the stencil covariance (100 / 1000 eps64 cond "
              "B(0); measured 1.1 / 13.5 in those units up to cond 2.5e11). Constructions that raise LinAlgError are outside the quantifier and only counted.")
RULE = "case = (variant, nx, columns | length factor, pixel scale, r0, L0, family member); non-trivial always; distinct by parameters"
ASSUMPTIONS = ["pixel (row i, column j) of the working screen sits at (i, j) * pixel_scale and the new row at row -1",
               "the Fried reference pixel is not itself a stencil point (configurations where it is are counted and skipped)"]
REQUIRED = ["infinitephasescreen.py:PhaseScreen.add_row"]
REQUIRED_COUNTERS = ["impulse_probes", "identity_entries_checked", "innovation_residuals_compared", "families"]
TIMEOUT = {"quick": 900, "thorough": 7200}
EPS32 = float(np.finfo(np.float32).eps)


def plan(tier, seed):
    out = []
    for i in range(16):
        s = {"shard": i, "families": 1 if tier == "quick" else 20, "max_nx": 33 if tier == "quick" else 70}
        if i == 14:
            s["env"] = {"NUMBA_BOUNDSCHECK": "1"}
        if i == 15:
            s["env"] = {"NUMBA_DISABLE_JIT": "1"}
            s["max_nx"] = 17
        out.append(s)
    return out


def build(aotools, variant, nx, ps, r0, L0, extra, gen):
    if variant == "vk":
        return aotools.PhaseScreenVonKarman(nx, ps, r0, L0, random_seed=gen, n_columns=extra)
    return aotools.PhaseScreenKolmogorov(nx, ps, r0, L0, random_seed=gen, stencil_length_factor=extra)


def probe_maps(ctx, scr, gen, need_B=True):
    """Observe M (new row vs every pixel of the working screen) and B (new row vs every innovation)."""
    shape = scr._scrn.shape
    nrow_len = shape[1]
    npix = shape[0] * shape[1]

    def step(content, b):
        scr._scrn = content.copy()
        gen.script = [b] if b is not None else []
        gen.n = 0
        gen.log = []
        scr.add_row()
        req = [l["size"] for l in gen.log]
        return scr._scrn[0].copy(), req

    zero = np.zeros(shape)
    off, req = step(zero, None)
    ctx.check(float(np.abs(off).max()) == 0.0, "offset_nonzero", "zero screen and zero innovations give a non-zero row", None)
    per_row = len(req) == 1 and req[0] is not None and int(np.prod(req[0])) == nrow_len
    if not per_row and not need_B:
        per_row = False
    elif not per_row:
        # innovations are not requested one vector per row (e.g. drawn in blocks): they cannot be scripted from outside
        raise ProbeNotApplicable("add_row requested draws %s" % (req,))
    M = np.zeros((nrow_len, npix))
    for p in range(npix):
        c = zero.copy()
        c.flat[p] = 1.0
        M[:, p], _ = step(c, None)       # every request, whatever its shape, is answered with zeros
        ctx.count("impulse_probes")
    if not per_row:
        return M, None, step
    B = np.zeros((nrow_len, nrow_len))
    for k in range(nrow_len):
        b = np.zeros(nrow_len)
        b[k] = 1.0
        B[:, k], _ = step(zero, b)
        ctx.count("innovation_probes")
    return M, B, step


def check_screen(ctx, aotools, variant, nx, ps, r0, L0, extra, rng, tag):
    from scipy import linalg
    wit = {"variant": variant, "nx": nx, "pixel_scale": float(ps), "pixel_scale_type": type(ps).__name__, "r0": r0, "L0": L0,
           "columns_or_length_factor": extra, "family_member": tag}
    gen = ScriptedGenerator([])
    try:
        scr = build(aotools, variant, nx, ps, r0, L0, extra, gen)
        ps = float(ps)
    except (linalg.LinAlgError, np.linalg.LinAlgError):
        ctx.count("constructions_raising_LinAlgError")
        return "LinAlgError"
    ctx.case("screen:" + variant, key=(variant, nx, ps, r0, L0, extra), nontrivial=True, sample=wit)
    shape = scr._scrn.shape
    nin = shape[1]
    M, B, step = probe_maps(ctx, scr, gen, need_B=False)
    if B is None:
        ctx.count("screens_whose_innovations_cannot_be_scripted")        # the clauses that involve B are not judged
    B0 = vk.variance(r0, L0)
    # which pixels are read at all?
    resp = np.where(np.abs(M).max(axis=0) > 0)[0]
    ref_pix = None
    if variant == "fried":
        # constant shift: adding c to the whole screen adds exactly c to the new row
        rows = M.sum(axis=1)
        amax = float(np.abs(M).sum(axis=1).max())
        ctx.close("fried_constant_shift(M.1=1)", rows, np.ones(nin), 64 * 2.3e-16 * amax, "fried:constant_shift", wit)
        cval = float(rng.uniform(-1e3, 1e3))
        base = rng.standard_normal(shape)
        b = rng.standard_normal(nin) if B is not None else None
        r1, _ = step(base, b)
        r2, _ = step(base + cval, b)
        ctx.close("fried_constant_shift_direct", r2 - r1, np.full(nin, cval), 64 * 2.3e-16 * abs(cval) * amax + 1e-12, "fried:constant_shift", wit, scale=abs(cval))
        rc = getattr(scr, "reference_coord", None)
        if rc is not None:
            ref_pix = int(rc[0]) * shape[1] + int(rc[1])
        else:   # infer: the single responding pixel whose column is 1 - (sum of the others)
            cands = [p for p in resp if np.allclose(M[:, p], 1 - (rows - M[:, p]), atol=1e-9)]
            ref_pix = int(cands[0]) if len(cands) == 1 else None
        if ref_pix is None:
            ctx.count("fried_reference_pixel_not_identified")
            return True
        sten = np.array([p for p in resp if p != ref_pix])
        sc_attr = getattr(scr, "stencil_coords", None)
        if sc_attr is not None and any(int(a) * shape[1] + int(b_) == ref_pix for a, b_ in sc_attr):
            ctx.count("fried_reference_inside_stencil_skipped")
            return True
        ctx.close("fried_reference_column", M[:, ref_pix], 1 - M[:, sten].sum(axis=1), 64 * 2.3e-16 * amax, "fried:reference_column", wit)
    else:
        sten = resp
    A = M[:, sten]
    # true coordinates: working-screen pixel (i, j) at (i, j) * ps ; new row at row -1
    zi, zj = np.divmod(sten, shape[1])
    Z = np.stack([zi, zj], axis=1).astype(np.float64) * ps
    X = np.stack([-np.ones(nin), np.arange(nin)], axis=1) * ps

    def cov(P, Q):
        d = np.sqrt(((P[:, None, :] - Q[None, :, :]) ** 2).sum(-1))
        return vk.covariance(d, r0, L0)

    Czz, Cxz, Cxx = cov(Z, Z), cov(X, Z), cov(X, X)
    anorm = float(np.abs(A).sum(axis=1).max())
    evz = np.linalg.eigvalsh(Czz)
    kappa = float(evz.max() / max(evz.min(), 1e-300 * evz.max()))
    ctx.metric("cond(Czz)_max", kappa)
    # double-precision solve of an ill-conditioned system: residual ~ eps64 cond(Czz) |C| (measured <= 1.1 and <= 13.5 in
    # these units up to cond 2.5e11); 100x / 1000x those units are asserted
    tol = (100 * 2.2e-16 * kappa + 1e-12) * B0 * (1 + anorm)
    ctx.count("identity_entries_checked", Cxz.size + Cxx.size)
    R1 = A @ Czz - Cxz
    ctx.metric("identity1_residual/(eps32 B0 (1+|A|))", float(np.abs(R1).max() / (EPS32 * B0 * (1 + anorm))))
    ctx.metric("identity1_residual/(eps64 kappa B0 (1+|A|))", float(np.abs(R1).max() / (2.2e-16 * kappa * B0 * (1 + anorm))))
    ctx.close("A.Czz=Cxz", A @ Czz, Cxz, tol, "identity:A_Czz_eq_Cxz:" + variant + (":family_member" if tag else ""), wit, scale=B0)
    tol2 = (1000 * 2.2e-16 * kappa + 1e-12) * B0 * (1 + anorm) ** 2
    if B is not None:
        R2 = A @ Czz @ A.T + B @ B.T - Cxx
        ctx.metric("identity2_residual/(eps32 B0 (1+|A|)^2)", float(np.abs(R2).max() / (EPS32 * B0 * (1 + anorm) ** 2)))
        ctx.metric("identity2_residual/(eps64 kappa B0 (1+|A|)^2)", float(np.abs(R2).max() / (2.2e-16 * kappa * B0 * (1 + anorm) ** 2)))
        ctx.close("A.Czz.At+B.Bt=Cxx", A @ Czz @ A.T + B @ B.T, Cxx, tol2,
                  "identity:A_Czz_At_plus_BBt_eq_Cxx:" + variant + (":family_member" if tag else ""), wit, scale=B0)
    # structure-function metric: exposes small geometric errors (1 % pixel scale, off-by-one row)
    Dth = 2 * (B0 - Cxz)
    Dimp = (np.diag(Cxx)[:, None] + np.diag(Czz)[None, :]) - 2 * (A @ Czz)
    rel = np.abs(Dimp - Dth) / Dth
    lim = tol / Dth + 1e-9
    ctx.metric("structure_function_metric_rel_err/limit", float((rel / lim).max()))
    ctx.check(bool(np.all(rel <= lim)), "identity:structure_function_metric:" + variant, "implied structure function between new row and stencil deviates by %.3g (limit %.3g)"
              % (float(rel.max()), float(lim[np.unravel_index(np.argmax(rel / lim), rel.shape)])), wit)
    # innovations: variance of the new row must be the model variance
    if B is not None:
        ctx.close("new_row_variance", np.diag(A @ Czz @ A.T + B @ B.T), np.full(nin, B0), tol2, "identity:row_variance", wit, scale=B0)
    # linearity on dense content
    c1, c2 = rng.standard_normal(shape), rng.standard_normal(shape)
    b1, b2 = (rng.standard_normal(nin), rng.standard_normal(nin)) if B is not None else (None, None)
    ra, _ = step(c1, b1)
    rb, _ = step(c2, b2)
    al, be = float(rng.uniform(-2, 2)), float(rng.uniform(-2, 2))
    rab, _ = step(al * c1 + be * c2, al * b1 + be * b2 if B is not None else None)
    sc = anorm * (abs(al) + abs(be)) * 4 + 1
    ctx.close("affine_linearity", rab, al * ra + be * rb, 1e-11 * sc, "row:linearity", wit, scale=sc)
    ctx.close("row=M.screen+B.b", ra, M @ c1.ravel() + (B @ b1 if B is not None else 0.0), 1e-11 * sc, "row:affine_map", wit, scale=sc)
    # attributes, when they exist (cross-check only; absence is not an alarm)
    Aattr, Battr = getattr(scr, "A_mat", None), getattr(scr, "B_mat", None)
    sc_attr = getattr(scr, "stencil_coords", None)
    if Aattr is not None and sc_attr is not None and np.shape(Aattr) == (nin, len(sc_attr)):
        pix = np.array([int(a) * shape[1] + int(b_) for a, b_ in sc_attr])
        Mexp = np.zeros_like(M)
        Mexp[:, pix] = Aattr
        if variant == "fried" and ref_pix is not None:
            Mexp[:, ref_pix] += 1 - np.asarray(Aattr).sum(axis=1)
        ctx.close("A_mat_attribute_vs_observed_map", Mexp, M, 1e-9 * (1 + anorm), "attribute:A_mat_differs_from_behaviour", wit)
    if Battr is not None and B is not None and np.shape(Battr) == B.shape:
        ctx.close("B_mat_attribute_vs_observed_map", np.asarray(Battr, float), B, 1e-9 * (1 + float(np.abs(B).max())), "attribute:B_mat_differs_from_behaviour", wit)
    sep = getattr(scr, "seperations", None)
    pos_z, pos_x = getattr(scr, "stencil_positions", None), getattr(scr, "X_positions", None)
    if sep is not None and pos_z is not None and pos_x is not None:
        P = np.append(pos_z, pos_x, axis=0)
        want = np.sqrt(((P[:, None, :] - P[None, :, :]) ** 2).sum(-1))
        ctx.close("separation_kernel", np.asarray(sep), want, 4 * 2.3e-16 * float(want.max()) + 1e-300, "separations:kernel_differs_from_definition", wit)
    return True


def check_natural(ctx, aotools, variant, nx, ps, r0, L0, extra, rng):
    """Ordinary use with a real (recorded) PCG64 stream: every added row is M.screen + B.b for the recorded draws, and the
    innovation part (row - M.screen) of no two rows is the same vector -- whatever way the innovations are drawn."""
    from scipy import linalg
    try:
        probe_gen = ScriptedGenerator([])
        probe = build(aotools, variant, nx, ps, r0, L0, extra, probe_gen)
        M, B, _ = probe_maps(ctx, probe, probe_gen, need_B=False)
        rec = RecordingGenerator(int(rng.integers(0, 2 ** 31)))
        scr = build(aotools, variant, nx, ps, r0, L0, extra, rec)
    except (linalg.LinAlgError, np.linalg.LinAlgError):
        ctx.count("constructions_raising_LinAlgError")
        return
    wit = {"variant": variant, "nx": nx, "pixel_scale": ps, "r0": r0, "L0": L0, "columns_or_length_factor": extra}
    ctx.case("natural_rows:" + variant, key=("nat", variant, nx, ps, r0, L0, extra), nontrivial=True)
    nrows = 12 if B is not None else 3 * M.shape[0] + 8
    resid = []
    for k in range(nrows):
        before = scr._scrn.copy()
        nd = len(rec.draws)
        scr.add_row()
        resid.append(scr._scrn[0] - M @ before.ravel())
        if B is None or len(rec.draws) != nd + 1 or np.asarray(rec.draws[-1]["value"]).size != M.shape[0]:
            ctx.count("natural_rows_with_another_draw_pattern(not judged)")
        else:
            b = np.asarray(rec.draws[-1]["value"], dtype=float).ravel()
            want = M @ before.ravel() + B @ b
            sc = float(np.abs(before).max()) * float(np.abs(M).sum(axis=1).max()) + float(np.abs(B).sum(axis=1).max()) * 5 + 1e-300
            ctx.count("natural_rows_conformed")
            ctx.close("natural_row_conforms", scr._scrn[0], want, 1e-10 * sc, "natural:row_not_affine_image_of_stencil_and_draws", wit, scale=sc)
        nreq = getattr(scr, "requested_nx_size", nx)
        ctx.check(np.array_equal(scr.scrn[0], scr._scrn[0][:nreq]), "natural:exposed_row", "exposed row is not the new row", wit)
    check_residuals_distinct(ctx, resid, "innovation_not_independent:same_innovation_for_two_rows:" + variant, wit)


def check_residuals_distinct(ctx, resid, mechanism, wit):
    """resid[t] = row_t - M.screen_{t-1} = B.b_t: independent unit-normal vectors never give the same residual twice."""
    R = np.array(resid)
    if len(R) < 2:
        return
    ctx.count("innovation_residuals_compared", len(R))
    scale = float(np.abs(R).max()) + 1e-300
    order = np.argsort(R[:, 0])
    Rs = R[order]
    near = np.where(np.abs(np.diff(Rs[:, 0])) <= 1e-7 * scale)[0]
    for k in near:
        if np.allclose(Rs[k], Rs[k + 1], rtol=0, atol=1e-7 * scale) and float(np.abs(Rs[k]).max()) > 1e-6 * scale:
            a_, b_ = sorted((int(order[k]), int(order[k + 1])))
            ctx.fail(mechanism, "add_row #%d and #%d have the same innovation part (row - A.stencil), of %d rows" % (a_ + 1, b_ + 1, len(R)), wit)
            return


def check_innovations_fresh(ctx, aotools, variant, nx, ps, r0, L0, extra, rng):
    """Integer / None seeds (the generators are then made inside the library): the unit-normal vector b of every row must be
    independent of the stencil, so no Gaussian number may serve twice -- neither for two rows nor for the initial screen and a row."""
    from scipy import linalg
    seed = [int(rng.integers(0, 2 ** 31)), None, 0][int(rng.integers(0, 3))]
    wit = {"variant": variant, "nx": nx, "pixel_scale": ps, "r0": r0, "L0": L0, "columns_or_length_factor": extra, "random_seed": seed}
    try:
        with DrawLedger() as led:
            scr = build(aotools, variant, nx, ps, r0, L0, extra, seed)
            for _ in range(3 * nx):
                scr.add_row()
    except (linalg.LinAlgError, np.linalg.LinAlgError):
        ctx.count("constructions_raising_LinAlgError")
        return
    if led.n_draws() == 0:
        ctx.count("ledger_saw_no_draws(not judged)")     # generators obtained some other way: nothing observed
        return
    ctx.case("draw_ledger:" + variant, key=("ledger", variant, nx, ps, r0, L0, extra, seed), nontrivial=True,
             sample=dict(wit, generators_created=led.ngen, gaussian_draws=led.n_draws()))
    ctx.count("ledger_draws", led.n_draws())
    n, ex = led.reused()
    ctx.check(n == 0, "innovation_not_independent:random_number_used_twice:" + variant,
              "%d of %d Gaussian draws occur twice (e.g. %r): a row's innovation repeats numbers already used" % (n, led.n_draws(), ex), wit)


def check_rederived(ctx, aotools, variant, nx, ps, r0, L0, extra, rng):
    """A live object whose public build steps are run again (makeAMatrix / makeBMatrix, in the constructor's order, without re-making the
    covariances): the observed law of the next row -- M and B B^T -- must be what it was.  Objects without these methods are not judged."""
    from scipy import linalg
    gen = ScriptedGenerator([])
    try:
        scr = build(aotools, variant, nx, ps, r0, L0, extra, gen)
    except (linalg.LinAlgError, np.linalg.LinAlgError):
        return
    steps = [getattr(scr, n, None) for n in ("makeAMatrix", "makeBMatrix")]
    if not all(callable(m) for m in steps):
        ctx.count("rederivation_not_applicable(no public build steps)")
        return
    M0, B0, _ = probe_maps(ctx, scr, gen, need_B=False)
    wit = {"variant": variant, "nx": nx, "pixel_scale": ps, "r0": r0, "L0": L0, "columns_or_length_factor": extra}
    ctx.case("rederived:" + variant, key=("rederived", variant, nx, ps, r0, L0, extra), nontrivial=True, sample=wit)
    for rep in range(2):
        try:
            for m in steps:
                m()
        except (linalg.LinAlgError, np.linalg.LinAlgError):
            ctx.count("rederivation_raising_LinAlgError")
            return
        except TypeError:
            ctx.count("rederivation_not_applicable(build steps take arguments)")
            return
        M1, B1, _ = probe_maps(ctx, scr, gen, need_B=False)
        ctx.count("rederivations_observed")
        sm = float(np.abs(M0).max())
        ctx.close("M_after_rederivation", M1, M0, 1e-7 * sm, "rederived_object:row_map_changed:" + variant, dict(wit, repetition=rep + 1), scale=sm)
        if B0 is not None and B1 is not None:
            sb = float(np.abs(B0 @ B0.T).max())
            ctx.close("BBt_after_rederivation", B1 @ B1.T, B0 @ B0.T, 1e-7 * sb, "rederived_object:innovation_covariance_changed:" + variant,
                      dict(wit, repetition=rep + 1), scale=sb)


def run(ctx, spec):
    import aotools
    from scipy import linalg
    rng = ctx.rng
    for f in range(spec["families"]):
        for variant in ("vk", "fried"):
            nx = int(rng.integers(5, spec["max_nx"] + 1))
            if variant == "fried" and rng.random() < 0.5:
                nx = int(2 ** rng.integers(2, int(np.log2(spec["max_nx"] - 1)) + 1) + 1)
            extra = int(rng.integers(1, 6)) if variant == "vk" else int(rng.integers(1, 5))
            if variant == "fried" and nx > 33:
                extra = min(extra, 2)
            L0 = float(10 ** rng.uniform(0, 2))
            ps = float(L0 * 10 ** rng.uniform(-5.3, -0.52))
            r0 = float(10 ** rng.uniform(-1.3, 0))
            ctx.count("families")
            # every variant directly follows the base configuration, so that even a one-entry cache with an
            # incomplete key (hidden state shared between instances) is exercised
            members = [(ps, r0, L0, 0), (ps, r0 * float(rng.uniform(1.5, 4)), L0, 1), (ps, r0, L0, 2),
                       (ps * float(rng.uniform(1.3, 3)), r0, L0, 3), (ps, r0, L0, 4), (ps, r0, L0 * float(rng.uniform(1.5, 4)), 5)]
            for (p_, r_, l_, tag) in members:
                check_screen(ctx, aotools, variant, nx, p_, r_, l_, extra, rng, tag)
            # integer-typed pixel scale (Python int / numpy integer): positions must not be truncated
            # turbulence so weak that the innovation covariance is ~1e-9 rad^2 and below (r0 / pixel scale up to 3e7)
            check_screen(ctx, aotools, variant, min(nx, 17), ps, ps * float(10 ** rng.uniform(4.5, 7.5)), L0, extra, rng, "huge_r0")
            # the same geometry in other length units (all three lengths scaled together): only ratios may matter
            cu = float(10 ** rng.uniform(-10, 3))
            check_screen(ctx, aotools, variant, min(nx, 17), ps * cu, r0 * cu, L0 * cu, extra, rng, "other_length_units")
            # always present: units in which a pixel is 1e-10 (every separation of the stencil far below 1e-8)
            cu2 = 1e-10 / ps
            res_u = check_screen(ctx, aotools, variant, min(nx, 13), ps * cu2, r0 * cu2, L0 * cu2, extra, rng, "other_length_units")
            if res_u == "LinAlgError":
                # whether a screen can be constructed depends on ratios only: the same screen in ordinary units must fail as well
                try:
                    build(aotools, variant, min(nx, 13), ps, r0, L0, extra, ScriptedGenerator([]))
                    ctx.fail("construction_depends_on_length_unit:" + variant,
                             "the screen constructs with pixel scale %g but raises LinAlgError with every length multiplied by %g" % (ps, cu2),
                             {"variant": variant, "nx": min(nx, 13), "pixel_scale": ps, "r0": r0, "L0": L0, "unit_factor": cu2})
                except (linalg.LinAlgError, np.linalg.LinAlgError):
                    pass
            ips = [3, np.int64(5), 7, np.int32(2)][int(rng.integers(0, 4))]
            check_screen(ctx, aotools, variant, min(nx, 17), ips, r0, float(ips) * 10 ** rng.uniform(1.3, 3), extra, rng, "int_pixel_scale")
            check_natural(ctx, aotools, variant, min(nx, 20), ps, r0, L0, extra, rng)
            # the smallest screens (1 .. 4 pixels; the Fried variant needs at least 2): same law
            tiny = int(rng.integers(1, 5)) if variant == "vk" else int(rng.integers(2, 5))
            check_screen(ctx, aotools, variant, tiny, ps, r0, L0, int(rng.integers(1, 4)) if variant == "vk" else 1, rng, "tiny_screen")
            check_innovations_fresh(ctx, aotools, variant, min(nx, 17), ps, r0, L0, extra, rng)
            check_rederived(ctx, aotools, variant, min(nx, 12), ps if ps > 1e-3 * L0 else 1e-2 * L0, r0, L0, extra, rng)
