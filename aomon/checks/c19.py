"""C19 -- empirical estimators implement their definitions."""
import numpy as np

from aomon.core import pure_call
from aomon.oracles import screen as scr_oracle, vk
from aomon.probes import ScriptedGenerator, unit_script, discover_shapes, unit_stream_script

LEVEL = "exploration"
TECHNIQUE = "definitional reference monitors on the real estimators, heap-poisoning sanitizer for uninitialised output, unit-draw ensemble probe through the real screen generator"
LEVEL_TEXT = ("The structure-function estimator is recomputed from its definition for random shapes, lags, steps and dtypes; every call "
              "is repeated after poisoning the allocator (a freed same-size block filled with NaN / 1e300) so that an unwritten output "
              "element becomes visible deterministically; ramps, amplitude scaling and the exact screen ensemble (sum over unit draws "
              "through the real generator) are relation checks. The temporal power spectrum is compared with a direct DFT, Parseval (with "
              "the missing Nyquist / top bin supplied independently), amplitude scaling, sinusoid peak and the frequency axis, for even and "
              "odd frame counts and 0-3 leading axes. Exploration over inputs.")
LEVEL_NOTE = "Trusted: NumPy; the discrete-sum screen covariance in aomon/oracles/screen.py."
RULE = "case = (estimator, shape, lags/step | frames, rate, leading axes, signal kind); non-trivial when the signal is non-constant; distinct by parameters and data digest"
ASSUMPTIONS = ["phase arrays have at least lags*step+1 rows (every lag has at least one pair)"]
REQUIRED = ["slopecovariance.py:calculate_structure_function", "temporal_ps.py:calc_slope_temporalps", "temporal_ps.py:get_tps_time_axis",
            "phasescreen.py:ft_phase_screen"]
REQUIRED_COUNTERS = ["poisoned_calls", "ensemble_probe_screens", "argument_shadow_checks"]


def plan(tier, seed):
    return [{"shard": i, "reps": 25 if tier == "quick" else 12000, "ensemble_N": (8 if i % 2 else 12) if tier == "quick" else (24 if i % 2 else 32)}
            for i in range(16)]


def poison(n, value):
    a = np.full(int(n), value)
    del a


def sf_ref(phase, lags, step):
    out = np.zeros(lags)
    p = np.asarray(phase, dtype=np.float64)
    for j in range(1, lags):
        out[j] = np.mean((p[:-j * step, :] - p[j * step:, :]) ** 2)
    return out


def check_sf(ctx, sf_fn, rng, big_step=None):
    step = int(rng.integers(1, 6))
    lags = int(rng.integers(2, 12))
    if big_step is not None:
        # large steps (every lag j lands in slot j: index arithmetic such as i / step must be exact for every step)
        step, lags = int(big_step), int(rng.integers(3, 7))
    rows = lags * step + 1 + int(rng.integers(0, 30))
    cols = int(rng.integers(max(1, (lags + 1) * step), (lags + 1) * step + 40))   # the API bounds the lag count by the column count
    dt = [np.float64, np.float32, np.int64][int(rng.integers(0, 3))]
    kind = int(rng.integers(0, 5))
    if kind == 4:       # a strong tilt ACROSS the shift axis (constant along it) under small structure: it cancels exactly in phase - shifted phase
        phase = float(2.0 ** int(rng.integers(14, 31))) * np.arange(cols)[None, :] + np.round(rng.standard_normal((rows, cols)) * 16) / 16.0
        dt = np.float64
    elif kind == 3:       # small structure on a huge common offset (differences are exact, sums of squares are not)
        phase = float(2.0 ** int(rng.integers(16, 27))) + rng.standard_normal((rows, cols)) * 2.0 ** -4
        dt = np.float64
    elif kind == 0:
        phase = rng.standard_normal((rows, cols)) * 3
    elif kind == 1:
        phase = np.cumsum(rng.standard_normal((rows, cols)), axis=0)
    else:
        phase = (np.arange(rows)[:, None] ** 2 * 0.25 + np.arange(cols)[None, :]).astype(float)
    if dt == np.int64:
        phase = np.round(phase * 4)
    phase = phase.astype(dt)
    use_default = rng.random() < 0.25
    wit = {"shape": (rows, cols), "lags": lags, "step": step, "dtype": str(np.dtype(dt)), "kind": kind, "defaults": use_default}
    ctx.case("structure_function", key=(rows, cols, lags, step, str(dt), kind, float(phase.flat[-1])), nontrivial=True, sample=wit)
    if use_default:
        # defaults: nbOfPoint = columns/4, step = 1
        lags_d = int(min(cols / 4, cols / 1 - 1))
        if lags_d * 1 + 1 > rows or lags_d < 1:
            return
        got = pure_call(ctx, "calculate_structure_function", sf_fn, phase)
        ref = sf_ref(phase, lags_d, 1)
    else:
        got = pure_call(ctx, "calculate_structure_function", sf_fn, phase, lags, step)
        ref = sf_ref(phase, lags, step)
    tol = (1e-5 if dt == np.float32 else 1e-12) * (float(np.abs(ref).max()) + 1e-300)
    if not ctx.check(np.shape(got) == ref.shape, "structure_function:length", "length %s, expected %s" % (np.shape(got), ref.shape), wit):
        return
    ctx.close("sf_vs_definition", got, ref, tol, "structure_function:definition:step%s" % ("1" if (use_default or step == 1) else ">1"), wit,
              scale=float(np.abs(ref).max()) + 1e-300)
    # allocator poisoning: an element that is never written shows the poison
    for val, nm in ((np.nan, "nan"), (1e300, "1e300")):
        ctx.count("poisoned_calls")
        poison(len(ref), val)
        g2 = sf_fn(phase) if use_default else sf_fn(phase, lags, step)
        ctx.check(g2[0] == 0, "structure_function:lag0", "lag 0 is %r after poisoning the allocator with %s (must be 0)" % (g2[0], nm), wit)
        ctx.check(np.array_equal(g2, got), "structure_function:uninitialised_output", "result changes with the previous content of the heap", wit)
    # ramp of slope a: a^2 (j step)^2 exactly
    a = float(2.0 ** int(rng.integers(-3, 4)))
    ramp = a * np.arange(rows, dtype=float)[:, None] * np.ones((1, cols))
    gr = sf_fn(ramp, lags, step)
    ctx.close("sf_ramp", gr, (a * np.arange(lags) * step) ** 2, 0.0, "structure_function:ramp", dict(wit, slope=a))
    off = float(2.0 ** int(rng.integers(10, 24)))
    gro = sf_fn(ramp * 2.0 ** -10 + off, lags, step)       # ramp on a large offset: still exact
    ctx.close("sf_ramp_with_offset", gro, (a * 2.0 ** -10 * np.arange(lags) * step) ** 2, 0.0, "structure_function:ramp:large_offset", dict(wit, slope=a, offset=off))
    # quadratic in amplitude (exact for a power of two)
    p64 = phase.astype(np.float64)
    g1 = sf_fn(p64, lags, step)
    ctx.check(np.array_equal(sf_fn(p64 * 4.0, lags, step), g1 * 16.0), "structure_function:amplitude_scaling", "sf(4 phase) != 16 sf(phase)", wit)
    if kind not in (3, 4):       # (a non-dyadic factor on a huge offset / tilt rounds the differences themselves)
        c = float(rng.uniform(0.3, 3))
        ctx.close("sf_amplitude", sf_fn(p64 * c, lags, step), g1 * c * c, 1e-12 * float(np.abs(g1).max()) * c * c, "structure_function:amplitude_scaling", wit)


def check_sf_masked(ctx, sf_fn, rng):
    """A phase given as a masked array (defined on a pupil, junk outside): every lag is the mean over the valid pairs only."""
    rows, cols = int(rng.integers(12, 40)), int(rng.integers(12, 40))
    lags, step = int(rng.integers(2, 5)), int(rng.integers(1, 3))
    if lags * step + 1 > rows or (lags + 1) * step > cols:
        return
    data = np.cumsum(rng.standard_normal((rows, cols)), axis=0)
    yy, xx = np.indices((rows, cols))
    outside = ((yy - rows / 2.0) / (rows / 2.0)) ** 2 + ((xx - cols / 2.0) / (cols / 2.0)) ** 2 > 1.0
    junk = np.where(outside, float(rng.choice([0.0, 1e3, -7.5])), data)
    ph = np.ma.masked_array(junk, mask=outside)
    got = np.ma.filled(sf_fn(ph, lags, step), np.nan)
    want = np.zeros(lags)
    for j in range(1, lags):
        a, b = ph[:-j * step, :], ph[j * step:, :]
        ok = ~(np.ma.getmaskarray(a) | np.ma.getmaskarray(b))
        want[j] = float(((np.asarray(a.data) - np.asarray(b.data))[ok] ** 2).mean())
    wit = {"shape": (rows, cols), "lags": lags, "step": step, "masked_fraction": float(outside.mean()), "value_under_mask": float(junk[outside][0]) if outside.any() else None}
    ctx.case("structure_function_masked", key=("masked", rows, cols, lags, step, float(data[0, 0])), nontrivial=True, sample=wit)
    ctx.count("masked_phase_cases")
    ctx.close("sf_masked_phase", np.asarray(got, dtype=float), want, 1e-12 * (float(np.abs(want).max()) + 1e-300), "structure_function:definition:masked_array_phase", wit)


def check_sf_ensemble(ctx, aotools, sf_fn, rng, N):
    """E[sf] over all draws = sum over unit draws of sf(screen(e_k)); compare with the exact discrete covariance."""
    delta = float(10 ** rng.uniform(-2, 0))
    r0 = float(10 ** rng.uniform(-1.3, 0))
    L0 = float(N * delta * 10 ** rng.uniform(-0.7, 0.3))
    l0 = float(delta * 10 ** rng.uniform(-2, -0.5))
    lags = N // 2
    step = 1
    wit = {"N": N, "delta": delta, "r0": r0, "L0": L0, "l0": l0}
    ctx.case("screen_ensemble", key=(N, delta, r0, L0, l0), nontrivial=True, sample=wit)
    acc = np.zeros(lags)
    zero = aotools.ft_phase_screen(r0, N, delta, L0, l0, seed=ScriptedGenerator([]))
    ctx.check(float(np.abs(zero).max()) == 0.0, "screen:zero_draws", "screen is not zero for zero draws", wit)
    shapes = discover_shapes(aotools.ft_phase_screen, r0, N, delta, L0, l0)
    for pos in range(sum(int(np.prod(sh)) for sh in shapes)):
        g = ScriptedGenerator(unit_stream_script(pos, shapes))
        s = aotools.ft_phase_screen(r0, N, delta, L0, l0, seed=g)
        ctx.count("ensemble_probe_screens")
        acc += sf_fn(s, lags, step)
    C = scr_oracle.grid_covariance(N, delta, r0, L0, l0)
    want = 2 * (C[0, 0] - C[np.arange(lags), 0])
    ctx.close("sf_ensemble_vs_discrete_covariance", acc, want, 1e-10 * float(want.max()), "structure_function:screen_ensemble", wit, scale=float(want.max()))
    # and it follows the analytic von Karman structure function (band established for coarse grids)
    ana = vk.structure_function(np.arange(lags) * delta, r0, L0)
    sel = slice(1, max(2, lags // 2))
    ratio = acc[sel] / ana[sel]
    ctx.metric("ensemble_sf/analytic_max", float(ratio.max()))
    ctx.metric("min:ensemble_sf/analytic_min", float(ratio.min()))
    ctx.check(bool(np.all((ratio > 0.3) & (ratio < 1.3))), "structure_function:analytic_band",
              "ensemble structure function / analytic von Karman = %s outside [0.3, 1.3]" % ratio.tolist(), wit)


def check_tps(ctx, tps, rng):
    n = int(rng.choice([2, 3, 4, 5, 7, 8, 16, 31, 32, 33, 64, 100, 101, 128, 255, 256, 512]))
    nsub = int(rng.integers(1, 9))
    lead = tuple(int(v) for v in rng.integers(1, 4, int(rng.integers(0, 4))))
    data = rng.standard_normal(lead + (n, nsub))
    par = "odd" if n % 2 else "even"
    wit = {"n_frames": n, "n_subaps": nsub, "leading": lead}
    ctx.case("temporal_ps", key=(n, nsub, lead, float(data.flat[0])), nontrivial=True, sample=wit)
    mean_tps, err = pure_call(ctx, "calc_slope_temporalps", tps.calc_slope_temporalps, data)
    nb = int(n / 2)
    if not ctx.check(np.shape(mean_tps) == lead + (nb,), "temporal_ps:shape", "shape %s, expected %s" % (np.shape(mean_tps), lead + (nb,)), wit):
        return
    t = np.arange(n)
    W = np.exp(-2j * np.pi * np.outer(np.arange(n), t) / n)     # direct DFT along frames
    X = np.einsum("kt,...ts->...ks", W, data)
    P = np.abs(X) ** 2
    sc = float(P.max())
    ctx.close("tps_vs_direct_dft", mean_tps, P[..., :nb, :].mean(-1), 1e-11 * sc, "temporal_ps:definition:" + par, wit, scale=sc)
    ctx.close("tps_err", err, P[..., :nb, :].std(-1) / np.sqrt(nsub), 1e-11 * sc, "temporal_ps:error_estimate", wit, scale=sc)
    # Parseval: n sum_t x^2 = P_0 + 2 sum_{1 <= k < n/2} P_k (+ Nyquist bin for even n, + top bin twice for odd n)
    total = n * (data ** 2).sum(-2).mean(-1)
    if n % 2 == 0:
        nyq = (np.abs(np.einsum("t,...ts->...s", (-1.0) ** t, data)) ** 2).mean(-1)
        rec = mean_tps[..., 0] + 2 * mean_tps[..., 1:].sum(-1) + nyq
    else:
        top = (np.abs(np.einsum("t,...ts->...s", np.exp(-2j * np.pi * ((n - 1) // 2) * t / n), data)) ** 2).mean(-1)
        rec = mean_tps[..., 0] + 2 * mean_tps[..., 1:].sum(-1) + 2 * top
    ctx.close("tps_parseval", rec, total, 1e-11 * float(np.max(total)) * n, "temporal_ps:parseval:" + par, wit, scale=float(np.max(total)))
    # quadratic in amplitude
    m4, e4 = tps.calc_slope_temporalps(data * 2.0)
    ctx.check(np.array_equal(m4, mean_tps * 4.0), "temporal_ps:amplitude_scaling", "doubling the slopes does not multiply the spectrum by exactly 4", wit)
    # sinusoid peaks at its bin
    if nb >= 3:
        k0 = int(rng.integers(1, nb))
        ph = rng.uniform(0, 2 * np.pi, nsub)
        sig = np.sin(2 * np.pi * k0 * t[:, None] / n + ph[None, :])
        m, _ = tps.calc_slope_temporalps(sig)
        ctx.check(int(np.argmax(m)) == k0, "temporal_ps:sinusoid_peak", "sinusoid at bin %d peaks at bin %d" % (k0, int(np.argmax(m))), dict(wit, bin=k0))
    # frequency axis
    rate = float(10 ** rng.uniform(-1, 4))
    ax = pure_call(ctx, "get_tps_time_axis", tps.get_tps_time_axis, rate, n)
    want = np.arange(nb) * rate / n
    if ctx.check(np.shape(ax) == want.shape, "tps_axis:length", "axis length %s, expected %d" % (np.shape(ax), nb), wit):
        ctx.close("tps_axis", ax, want, 1e-12 * rate, "tps_axis:values:" + par, dict(wit, frame_rate=rate), scale=rate)
    # frame rates as integers of any width (a camera header value): 500 Hz x 1000 frames does not fit int16
    irate = int(rng.choice([50, 150, 500, 1000, 2000, 30000]))
    for typ in (int, np.int16, np.uint16, np.int32, np.int64, np.float32):
        axi = tps.get_tps_time_axis(typ(irate), n)
        wi = np.arange(nb) * float(irate) / n
        ctx.count("tps_axis_integer_rate_checks")
        if ctx.check(np.shape(axi) == wi.shape, "tps_axis:length", "axis length %s, expected %d" % (np.shape(axi), nb), wit):
            ctx.close("tps_axis_integer_rate", np.asarray(axi, dtype=np.float64), wi, (1e-6 if typ is np.float32 else 1e-12) * irate, "tps_axis:values:integer_frame_rate",
                      dict(wit, frame_rate=irate, frame_rate_type=typ.__name__), scale=float(irate))


def check_tps_large(ctx, tps, rng):
    """More than 2^20 samples, sub-apertures of very different power: still the equal-weight mean of |FFT|^2."""
    n, nsub = int(rng.choice([16384, 32768])), int(rng.integers(33, 47))
    lead = () if rng.random() < 0.5 else (2,)
    amp = 10 ** rng.uniform(-2, 2, nsub)
    data = rng.standard_normal(lead + (n, nsub)) * amp
    ctx.case("temporal_ps_large", key=(n, nsub, lead, float(data.flat[0])), nontrivial=True, sample={"n_frames": n, "n_subaps": nsub, "leading": lead})
    mean_tps, err = tps.calc_slope_temporalps(data)
    P = np.abs(np.fft.fft(data, axis=-2)[..., : n // 2, :]) ** 2
    sc = float(P.mean(-1).max())
    ctx.close("tps_large_vs_fft", mean_tps, P.mean(-1), 1e-10 * sc, "temporal_ps:definition:large_input", {"n_frames": n, "n_subaps": nsub, "leading": lead}, scale=sc)


def run(ctx, spec):
    import aotools
    from aotools.turbulence import temporal_ps as tps
    sf_fn = aotools.calculate_structure_function
    rng = ctx.rng
    for rep in range(spec["reps"]):
        check_sf(ctx, sf_fn, rng)
        if rep % 5 == 0:
            check_sf_masked(ctx, sf_fn, rng)
        check_tps(ctx, tps, rng)
    # every step from 6 to 200 over the shards (quick: 12 per shard; thorough: all), always including 49 / 98 / 103 / 107 / 161,
    # the first steps for which j * step * (1 / step) < j in double precision
    steps = [st for st in range(6, 201) if st % 16 == spec["shard"]]
    if spec["reps"] <= 100:
        steps = steps[:: max(1, len(steps) // 9)]
    steps += [[49, 98, 103, 107, 161][spec["shard"] % 5]]
    for st in steps:
        check_sf(ctx, sf_fn, rng, big_step=st)
    check_sf_ensemble(ctx, aotools, sf_fn, rng, spec["ensemble_N"])
    if spec["shard"] % 4 == 2:
        check_tps_large(ctx, tps, rng)
