"""C06 -- seeded screens are reproducible and instances are isolated.

History checker: random programs interleave operations on several seeded screen objects
with unrelated library calls and hostile changes to NumPy's / Python's global random
state; every output is logged as (object, op index, sha) and compared with the digest
produced by the *isolated* execution of that object's own sequence in a fresh interpreter.
"""
import json
import os
import random
import subprocess
import tempfile
import threading

import numpy as np

from aomon import boot, isolated
from aomon.core import digest

LEVEL = "exploration"
TECHNIQUE = "offline history checker over recorded output digests vs isolated executions in fresh interpreters; global-state monitor around every seeded call; threaded schedule stress"
LEVEL_TEXT = ("Random programs over 2-5 seeded screen objects (both infinite variants, plain and sub-harmonic FFT screens; seeds 0, 1, 2^32-1, "
              "2^63, lists, arrays, SeedSequence, random ints; objects that share geometry but differ in r0 / pixel scale) interleaved with "
              "unrelated library calls (incl. optimal_grouping, which consumes NumPy's global generator), reseeding and draws from the global "
              "generators, and further instances with the same seed. Each object's outputs must be bit-identical to its own sequence run "
              "alone in a fresh interpreter, seeded calls must leave the global generators untouched, different seeds / unseeded calls must "
              "differ (also among 1500-6000 rapid unseeded calls, for objects that are one screen in other length units, after the global generators were put in the same state, across sibling processes forked after import, and for seeds congruent modulo 2^32). Thorough adds threads owning their own instances under a 1 us switch interval. Exploration over interleavings.")
LEVEL_NOTE = "Trusted: a fresh /venv interpreter running only aomon/isolated.py is the isolation oracle; blake2b digests."
RULE = "case = one program (object set, seeds, interleaving); non-trivial when >= 2 objects and >= 1 hostile action are interleaved; distinct by program seed"
ASSUMPTIONS = ["same seed and parameters => same stream (numpy PCG64 is deterministic across processes)"]
REQUIRED = ["phasescreen.py:ft_phase_screen", "phasescreen.py:ft_sh_phase_screen", "infinitephasescreen.py:PhaseScreen.make_initial_screen",
            "infinitephasescreen.py:PhaseScreen.add_row", "profile_compression.py:optimal_grouping"]
REQUIRED_COUNTERS = ["isolated_oracle_runs", "outputs_compared", "hostile_actions", "global_state_checks", "unseeded_pairs"]
TIMEOUT = {"quick": 1200, "thorough": 7200}


def plan(tier, seed):
    return [{"shard": i, "programs": 2 if tier == "quick" else 24, "threaded": 0 if tier == "quick" else 6} for i in range(16)]


def rand_seed(rng):
    k = int(rng.integers(0, 9))
    return [{"int": 0}, {"int": 1}, {"int": 2 ** 32 - 1}, {"int": 2 ** 63}, {"list": [1, 2, 3]}, {"array": [7, 0, 9]},
            {"ss": int(rng.integers(0, 1000))}, {"int": int(rng.integers(2, 2 ** 31))}, {"npint": 0}][k]


def rand_object(rng, share=None):
    kind = str(rng.choice(["vk", "fried", "ft", "ftsh"]))
    if share is not None and rng.random() < 0.6:
        # same geometry as an earlier object, different r0 or pixel scale: instances must still be independent
        kind, p = share["kind"], dict(share["params"])
        if rng.random() < 0.35:
            # the same screen in other length units (every length times one factor): all ratios, hence any key built
            # from ratios, coincide, but the screens are different numbers
            cu = float(rng.choice([5.0, 10.0, 0.1, 3.0, 0.2, 1e-3]))
            for k in ("ps", "delta", "r0", "L0", "l0"):
                if k in p:
                    p[k] = p[k] * cu
        elif "r0" in p and rng.random() < 0.7:
            p["r0"] = p["r0"] * float(rng.uniform(1.3, 3))
        else:
            p["ps" if "ps" in p else "delta"] *= float(rng.uniform(1.3, 3))
        return {"kind": kind, "params": p, "seed": share["seed"] if rng.random() < 0.5 else rand_seed(rng)}
    if kind in ("vk", "fried"):
        L0 = float(10 ** rng.uniform(0.5, 2))
        p = {"nx": int(rng.integers(6, 20)), "ps": float(L0 * 10 ** rng.uniform(-2.5, -1)), "r0": float(10 ** rng.uniform(-1, 0)), "L0": L0,
             "extra": int(rng.integers(1, 3))}
    else:
        N = int(2 * rng.integers(4, 17))
        d = float(10 ** rng.uniform(-2, 0))
        p = {"N": N, "delta": d, "r0": float(10 ** rng.uniform(-1, 0)), "L0": float(N * d * 10 ** rng.uniform(-0.5, 1)), "l0": float(d * 10 ** rng.uniform(-2, 0))}
    return {"kind": kind, "params": p, "seed": rand_seed(rng)}


def isolated_digests(new, n_ops):
    with tempfile.NamedTemporaryFile("w", suffix=".json", dir="/dev/shm", delete=False) as f:
        json.dump({"new": new, "n_ops": n_ops}, f)
        path = f.name
    try:
        env = dict(os.environ, PYTHONPATH=boot.VERIF, PYTHONHASHSEED="0")
        r = subprocess.run([boot.PY, "-m", "aomon.isolated", path], cwd=boot.VERIF, env=env, stdout=subprocess.PIPE,
                           stderr=subprocess.PIPE, text=True, timeout=600)
        for line in r.stdout.splitlines():
            if line.startswith("DIGESTS "):
                return json.loads(line[8:]), None
        return None, (r.stderr or r.stdout)[-1500:]
    finally:
        os.unlink(path)


def global_state():
    st = np.random.get_state()
    return digest(st[1], st[2], st[3], st[4]), digest(repr(random.getstate()))


def hostile(ctx, aotools, rng):
    k = int(rng.integers(0, 9))
    ctx.count("hostile_actions")
    if k == 0:
        np.random.seed(int(rng.integers(0, 2 ** 31)))
    elif k == 1:
        np.random.standard_normal(1000)
    elif k == 2:
        random.seed(int(rng.integers(0, 2 ** 31)))
        random.random()
    elif k == 3:
        h = np.arange(0, 5000, 250.0)
        aotools.optimal_grouping(2, 3, h, np.ones(len(h)))       # consumes the global generator
    elif k == 4:
        aotools.circle(3.5, 16)
        aotools.zernikeArray(6, 16)
    elif k == 5:
        aotools.centre_of_gravity(np.random.random((8, 8)))
    elif k == 6:
        aotools.ft_phase_screen(0.2, 16, 0.1, 10.0, 0.01)                # unseeded screen
    elif k == 7:
        aotools.PhaseScreenVonKarman(8, 0.2, 0.2, 20.0)            # unseeded instance
    else:
        np.random.seed(0)


def run_program(ctx, aotools, rng, pid):
    nobj = int(rng.integers(2, 6))
    news = []
    for i in range(nobj):
        news.append(rand_object(rng, share=news[int(rng.integers(0, len(news)))] if news and rng.random() < 0.5 else None))
    nops = [int(rng.integers(2, 14)) if n["kind"] in ("vk", "fried") else 0 for n in news]
    # interleaving: a random merge of the objects' own sequences, with hostile actions in between
    todo = []
    for i, n in enumerate(news):
        todo += [i] * (1 + nops[i])
    order = list(rng.permutation(todo))
    progress = {i: -1 for i in range(nobj)}
    objs = {}
    log = {i: [] for i in range(nobj)}
    wit = {"program": pid, "objects": news, "ops_per_object": nops}
    ctx.case("program", key=("prog", pid, ctx.seed, ctx.shard), nontrivial=nobj >= 2, sample={"objects": [dict(n, params={k: (round(v, 4) if isinstance(v, float) else v) for k, v in n["params"].items()}) for n in news], "interleaving": [int(i) for i in order[:40]]})
    for i in order:
        i = int(i)
        if rng.random() < 0.5:
            hostile(ctx, aotools, rng)
        g0 = global_state()
        if progress[i] < 0:
            objs[i] = isolated.create(aotools, news[i])
            if rng.random() < 0.3:   # a further instance with the same seed and parameters
                other = isolated.create(aotools, news[i])
                ctx.check(digest(isolated.output_of(other)) == digest(isolated.output_of(objs[i])), "same_seed_twins_differ:" + news[i]["kind"],
                          "two objects created back to back with the same seed differ", dict(wit, object=i))
                if news[i]["kind"] in ("vk", "fried"):
                    other.add_row()       # advancing the twin must not disturb the first
        else:
            objs[i].add_row()
        progress[i] += 1
        g1 = global_state()
        ctx.count("global_state_checks")
        ctx.check(g0 == g1, "seeded_call_touches_global_rng:" + news[i]["kind"], "a seeded %s operation changed NumPy's / Python's global random state" % news[i]["kind"], dict(wit, object=i))
        log[i].append(digest(isolated.output_of(objs[i])))
    # offline check against the isolated executions
    for i in range(nobj):
        want, err = isolated_digests(news[i], nops[i])
        ctx.count("isolated_oracle_runs")
        if want is None:
            ctx.fail("isolated_run_failed:" + news[i]["kind"] + ":" + next(iter(news[i]["seed"])), "the isolated execution raised: %s" % err, dict(wit, object=i))
            continue
        for k, (a, b) in enumerate(zip(log[i], want)):
            ctx.count("outputs_compared")
            if a != b:
                ctx.count("oracle_evals")
                ctx.fail("not_reproducible:%s:%s" % (news[i]["kind"], "initial" if k == 0 else "added_row"),
                         "object %d (%s, seed %s): output #%d under interleaving differs from its isolated execution" % (i, news[i]["kind"], news[i]["seed"], k),
                         dict(wit, object=i, op=k))
                break
        else:
            ctx.count("oracle_evals")
    # different seeds differ; unseeded calls differ
    a = dict(news[0])
    b = dict(a, seed={"int": 987654321})
    c = dict(a, seed={"int": 987654322})
    db, dc = digest(isolated.output_of(isolated.create(aotools, b))), digest(isolated.output_of(isolated.create(aotools, c)))
    ctx.check(db != dc, "different_seeds_same_screen:" + a["kind"], "seeds 987654321 and 987654322 give identical screens", wit)
    u = dict(a, seed=None)
    du1, du2 = digest(isolated.output_of(isolated.create(aotools, u))), digest(isolated.output_of(isolated.create(aotools, u)))
    ctx.count("unseeded_pairs")
    ctx.check(du1 != du2, "unseeded_calls_identical:" + a["kind"], "two unseeded calls returned identical screens", wit)
    outs = []
    for _ in range(2):          # the global generators put in the same state before each unseeded call
        np.random.seed(4242)
        random.seed(4242)
        o = isolated.create(aotools, u)
        d0 = digest(isolated.output_of(o))
        if u["kind"] in ("vk", "fried"):
            o.add_row()
            d0 = d0 + digest(isolated.output_of(o))
        outs.append(d0)
    ctx.count("unseeded_pairs")
    ctx.check(outs[0] != outs[1], "unseeded_calls_follow_global_rng:" + a["kind"],
              "two unseeded calls are identical when NumPy's global generator is put in the same state before each", wit)


def forked_unseeded(ctx, aotools, rng):
    """Unseeded screens made by sibling processes forked from this one (after aotools was imported) must differ."""
    import multiprocessing as mp
    c = mp.get_context("fork")
    q = c.Queue()
    u = [{"kind": "ft", "params": {"N": 12, "delta": 0.1, "r0": 0.2, "L0": 20.0, "l0": 0.01}, "seed": None},
         {"kind": "ftsh", "params": {"N": 12, "delta": 0.1, "r0": 0.2, "L0": 20.0, "l0": 0.01}, "seed": None},
         {"kind": "vk", "params": {"nx": 8, "ps": 0.1, "r0": 0.2, "L0": 20.0, "extra": 2}, "seed": None},
         {"kind": "fried", "params": {"nx": 8, "ps": 0.1, "r0": 0.2, "L0": 20.0, "extra": 1}, "seed": None}]

    def child(tag):
        out = []
        try:
            for spec_ in u:
                o = isolated.create(aotools, spec_)
                d = digest(isolated.output_of(o))
                if spec_["kind"] in ("vk", "fried"):
                    o.add_row()
                    d += digest(isolated.output_of(o))
                out.append(d)
        except Exception:
            out = None            # the parent meets the same exception itself; do not keep it waiting
        q.put((tag, out))

    # the parent has already made unseeded FFT screens when it forks (state created lazily by a first unseeded call would be
    # inherited by every child); the infinite screens are left out here because numba's OpenMP layer must not be used before a fork
    for spec_ in u[:2]:
        isolated.create(aotools, spec_)
    procs = [c.Process(target=child, args=(k,)) for k in range(3)]
    [p.start() for p in procs]
    got = {}
    for _ in procs:
        try:
            tag, out = q.get(timeout=600)
            if out is not None:
                got[tag] = out
        except Exception:
            break
    for p in procs:
        p.join(5)
        if p.is_alive():
            p.terminate()
    ctx.case("forked_unseeded", key=("fork", ctx.shard, ctx.seed), nontrivial=True, sample={"children": len(got)})
    if len(got) < 3:
        ctx.note("forked children did not all report: %d of 3" % len(got))
        return
    ctx.count("forked_sibling_comparisons")
    for k, spec_ in enumerate(u):
        ds = [got[t][k] for t in sorted(got)]
        ctx.count("unseeded_pairs")
        ctx.check(len(set(ds)) == len(ds), "unseeded_calls_identical_across_forked_processes:" + spec_["kind"],
                  "sibling processes forked after import produced identical unseeded %s screens" % spec_["kind"], {"kind": spec_["kind"]})


def unseeded_birthday(ctx, aotools, rng, n):
    """Unseeded calls draw from fresh OS entropy: among n rapid calls no two screens may coincide (a seed taken from a
    clock, or from a small range, collides with probability ~ n^2 / (2 x range))."""
    for kind, params, m in (("ft", {"N": 4, "delta": 0.1, "r0": 0.2, "L0": 20.0, "l0": 0.01}, n), ("ftsh", {"N": 4, "delta": 0.1, "r0": 0.2, "L0": 20.0, "l0": 0.01}, n // 2),
                            ("vk", {"nx": 4, "ps": 0.1, "r0": 0.2, "L0": 20.0, "extra": 1}, n // 10), ("fried", {"nx": 5, "ps": 0.1, "r0": 0.2, "L0": 20.0, "extra": 1}, n // 10)):
        u = {"kind": kind, "params": params, "seed": None}
        ds = [digest(isolated.output_of(isolated.create(aotools, u))) for _ in range(m)]
        ctx.case("unseeded_birthday:" + kind, key=("birthday", kind, ctx.shard, ctx.seed), nontrivial=True, sample={"kind": kind, "calls": m, "distinct": len(set(ds))})
        ctx.count("unseeded_pairs", m * (m - 1) // 2)
        ctx.check(len(set(ds)) == m, "unseeded_calls_identical:among_many:" + kind,
                  "%d unseeded %s screens: only %d distinct" % (m, kind, len(set(ds))), {"kind": kind, "calls": m})


def reinitialised_objects(ctx, aotools, rng):
    """The public make_initial_screen() called again on a used object (and after assigning another random_seed): same seed and
    parameters give the same initial screen and the same rows as the first time / as a fresh object."""
    for kind, params in (("vk", {"nx": 9, "ps": 0.1, "r0": 0.2, "L0": 20.0, "extra": 2}), ("fried", {"nx": 9, "ps": 0.1, "r0": 0.2, "L0": 20.0, "extra": 1})):
        s0, s1 = int(rng.integers(0, 2 ** 31)), int(rng.integers(0, 2 ** 31))
        spec0 = {"kind": kind, "params": params, "seed": {"int": s0}}
        o = isolated.create(aotools, spec0)
        first = [digest(isolated.output_of(o))]
        for _ in range(int(rng.integers(2, 7))):
            o.add_row()
            first.append(digest(isolated.output_of(o)))
        hostile(ctx, aotools, rng)
        o.make_initial_screen()
        again = [digest(isolated.output_of(o))]
        for _ in range(len(first) - 1):
            o.add_row()
            again.append(digest(isolated.output_of(o)))
        ctx.case("reinitialised:" + kind, key=("reinit", kind, s0), nontrivial=True, sample={"kind": kind, "seed": s0, "rows": len(first) - 1})
        ctx.count("reinitialisations")
        ctx.check(first == again, "not_reproducible:%s:after_make_initial_screen" % kind,
                  "make_initial_screen() on a used %s object does not reproduce its initial screen / rows" % kind, {"kind": kind, "seed": s0})
        o.random_seed = s1
        o.make_initial_screen()
        o.add_row()
        f = isolated.create(aotools, {"kind": kind, "params": params, "seed": {"int": s1}})
        f.add_row()
        ctx.check(digest(isolated.output_of(o)) == digest(isolated.output_of(f)), "not_reproducible:%s:reseeded_object" % kind,
                  "a %s object re-initialised with random_seed = s differs from a fresh object with that seed" % kind, {"kind": kind, "seed": s1})


def congruent_seeds(ctx, aotools, rng):
    """Seeds that differ by a multiple of 2^32 / 2^64 are different seeds."""
    s0 = int(rng.integers(0, 2 ** 31))
    for kind, params in (("vk", {"nx": 8, "ps": 0.1, "r0": 0.2, "L0": 20.0, "extra": 2}), ("fried", {"nx": 8, "ps": 0.1, "r0": 0.2, "L0": 20.0, "extra": 1}),
                         ("ft", {"N": 12, "delta": 0.1, "r0": 0.2, "L0": 20.0, "l0": 0.01}), ("ftsh", {"N": 12, "delta": 0.1, "r0": 0.2, "L0": 20.0, "l0": 0.01})):
        ds = []
        for s in (s0, s0 + 2 ** 32, s0 + 2 ** 33, s0 + 2 ** 64, s0 + 1):
            ds.append(digest(isolated.output_of(isolated.create(aotools, {"kind": kind, "params": params, "seed": {"int": s}}))))
        ctx.case("congruent_seeds:" + kind, key=(kind, s0), nontrivial=True)
        ctx.check(len(set(ds)) == len(ds), "different_seeds_same_screen:congruent_mod_2^32:" + kind,
                  "seeds %d, %d + 2^32, + 2^33, + 2^64, + 1 do not all give different %s screens" % (s0, s0, kind), {"kind": kind, "seed": s0})


def run_threaded(ctx, aotools, rng, pid):
    import sys
    nthreads = 4
    news = [rand_object(rng) for _ in range(nthreads)]
    for n in news:
        if n["kind"] in ("ft", "ftsh"):
            n["kind"] = "vk"
            n["params"] = {"nx": 10, "ps": 0.1, "r0": 0.2, "L0": 20.0, "extra": 2}
    nops = [int(rng.integers(5, 25)) for _ in news]
    logs = [[] for _ in news]
    errs = []

    def work(i):
        try:
            o = isolated.create(aotools, news[i])
            logs[i].append(digest(isolated.output_of(o)))
            for _ in range(nops[i]):
                o.add_row()
                logs[i].append(digest(isolated.output_of(o)))
        except Exception as e:
            errs.append(repr(e))

    old = sys.getswitchinterval()
    sys.setswitchinterval(1e-6)
    # yield injection: at statement starts inside aotools, hand the GIL over with a seeded probability, so that the
    # threads interleave inside the library's own functions and not only at the interpreter's switch interval
    mon = getattr(sys, "monitoring", None)
    tool = None
    yields = [0]
    inj = random.Random(int(rng.integers(0, 2 ** 31)))
    lock = threading.Lock()
    if mon is not None:
        try:
            tool = mon.PROFILER_ID
            mon.use_tool_id(tool, "aomon-yield-injection")

            def on_line(code, line):
                if "/aotools/" not in code.co_filename:
                    return mon.DISABLE
                with lock:
                    hit = inj.random() < 0.02
                if hit:
                    yields[0] += 1
                    import time
                    time.sleep(0)

            mon.register_callback(tool, mon.events.LINE, on_line)
            mon.set_events(tool, mon.events.LINE)
        except ValueError:
            tool = None
    try:
        ts = [threading.Thread(target=work, args=(i,)) for i in range(nthreads)]
        [t.start() for t in ts]
        [t.join() for t in ts]
    finally:
        sys.setswitchinterval(old)
        if tool is not None:
            mon.set_events(tool, 0)
            mon.register_callback(tool, mon.events.LINE, None)
            mon.free_tool_id(tool)
    ctx.count("yield_injections", yields[0])
    wit = {"threads": nthreads, "objects": news}
    ctx.case("threaded_program", key=("thr", pid, ctx.seed, ctx.shard), nontrivial=True)
    ctx.check(not errs, "threaded:exception", "a thread raised: %s" % errs[:2], wit)
    for i in range(nthreads):
        want, err = isolated_digests(news[i], nops[i])
        ctx.count("isolated_oracle_runs")
        ctx.check(want is not None and logs[i] == want, "not_reproducible:threaded:" + news[i]["kind"], "thread %d's screen differs from its isolated execution" % i, wit)


def run(ctx, spec):
    import aotools
    rng = ctx.rng
    if spec["shard"] % 4 == 0:
        # first thing in the process: numba's OpenMP layer is not fork-safe once the parent has used it
        forked_unseeded(ctx, aotools, rng)
    for p in range(spec["programs"]):
        run_program(ctx, aotools, rng, p)
    for p in range(spec["threaded"]):
        run_threaded(ctx, aotools, rng, p)
    congruent_seeds(ctx, aotools, rng)
    reinitialised_objects(ctx, aotools, rng)
    unseeded_birthday(ctx, aotools, rng, 1500 if spec["programs"] <= 2 else 6000)
