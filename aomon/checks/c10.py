"""C10 -- optical propagators are linear and conserve power.

Monitor: icontract post-conditions on the four real propagators (power, shape, finite),
rebound on every alias, so that any call made by the workload -- including the calls
made while checking linearity -- is an observation; relation monitor for linearity.
"""
import numpy as np

from aomon.workloads import fields

LEVEL = "exploration"
TECHNIQUE = "icontract post-conditions (power, shape, finite) on the four real propagators + linearity relation monitor"
LEVEL_TEXT = ("Unitarity and linearity are algebraic identities of the sampled operators, so they are checked to FFT rounding on "
              "randomised and hostile fields (spikes at corners, checkerboards, constants), grid sizes 2..128, wavelengths, spacings and "
              "distances of both signs over many decades, magnifications 0.1..10 (1e-9..1e9 in a tenth of the calls) including exactly 1 and 1 +- 1e-9, output spacing exactly the natural single-FFT spacing. Exploration: "
              "the quantifier is over continuous parameters.")
LEVEL_NOTE = "Trusted: NumPy. Scalar arguments are Python floats/ints or numpy.float64 (float32 scalars would lower the arithmetic precision)."
RULE = ("case = (propagator, N, field kind, wavelength, spacings, distance/focal length); non-trivial when the field has non-zero "
        "power; distinct by those parameters")
ASSUMPTIONS = ["even square grids, z != 0 (z == 0 returns the input by design)",
               "output spacing: given d2 for angular spectrum / two-step, |lambda z /(N d1)| for one-step and lens"]
REQUIRED = ["opticalpropagation.py:angularSpectrum", "opticalpropagation.py:oneStepFresnel",
            "opticalpropagation.py:twoStepFresnel", "opticalpropagation.py:lensAgainst"]
REQUIRED_COUNTERS = ["contract_evals:angularSpectrum", "contract_evals:oneStepFresnel",
                     "contract_evals:twoStepFresnel", "contract_evals:lensAgainst", "linearity_groups"]


def plan(tier, seed):
    n = 16
    return [{"shard": i, "n_shards": n, "n_calls": 30 if tier == "quick" else 15000} for i in range(n)]


def _eps(a):
    return float(np.finfo(np.float32).eps) if np.asarray(a).dtype in (np.complex64, np.float32) else float(np.finfo(np.float64).eps)


def power_post(ctx, name, Uin, d_in, d_out, result, wit):
    ctx.count("contract_evals:" + name)
    Uin = np.asarray(Uin)
    res = np.asarray(result)
    if not ctx.check(res.shape == Uin.shape, name + ":shape", "%s output shape %s != input %s" % (name, res.shape, Uin.shape), wit):
        return
    if not ctx.check(bool(np.isfinite(res).all()), name + ":nonfinite", "%s output has non-finite values" % name, wit):
        return
    N = Uin.shape[0]
    e = max(_eps(res), _eps(Uin))
    p_in = float((np.abs(Uin.astype(np.complex128)) ** 2).sum()) * d_in ** 2
    p_out = float((np.abs(res.astype(np.complex128)) ** 2).sum()) * d_out ** 2
    tol = 64 * e * (np.log2(N) + 1) * 2 * p_in
    ctx.close("power:" + name, p_out, p_in, tol, name + ":power", wit, scale=p_in if p_in > 0 else None)


def install(ctx, aotools):
    from aomon import instrument
    op = aotools.opticalpropagation

    def as_power(inputComplexAmp, wvl, inputSpacing, outputSpacing, z, result):
        if z != 0:
            power_post(ctx, "angularSpectrum", inputComplexAmp, float(inputSpacing), float(outputSpacing), result,
                       {"wvl": wvl, "d1": inputSpacing, "d2": outputSpacing, "z": z, "N": np.shape(inputComplexAmp)[0]})
        return True

    def one_power(Uin, wvl, d1, z, result):
        N = np.shape(Uin)[0]
        power_post(ctx, "oneStepFresnel", Uin, float(d1), abs(wvl * z / (N * d1)), result, {"wvl": wvl, "d1": d1, "z": z, "N": N})
        return True

    def two_power(Uin, wvl, d1, d2, z, result):
        power_post(ctx, "twoStepFresnel", Uin, float(d1), float(d2), result,
                   {"wvl": wvl, "d1": d1, "d2": d2, "z": z, "z_type": type(z).__name__, "N": np.shape(Uin)[0]})
        return True

    def lens_power(Uin, wvl, d1, f, result):
        N = np.shape(Uin)[0]
        power_post(ctx, "lensAgainst", Uin, float(d1), abs(wvl * f / (N * d1)), result, {"wvl": wvl, "d1": d1, "f": f, "N": N})
        return True

    instrument.ensure_on_function(op.angularSpectrum, as_power, ctx, "angularSpectrum")
    instrument.ensure_on_function(op.oneStepFresnel, one_power, ctx, "oneStepFresnel")
    instrument.ensure_on_function(op.twoStepFresnel, two_power, ctx, "twoStepFresnel")
    instrument.ensure_on_function(op.lensAgainst, lens_power, ctx, "lensAgainst")


def rand_params(rng):
    N = int(rng.choice([2, 4, 6, 8, 10, 16, 24, 32, 50, 64, 128]))
    wvl = float(10 ** rng.uniform(np.log10(0.3e-6), np.log10(20e-6)))
    d1 = float(10 ** rng.uniform(-5, 0))
    if rng.random() < 0.15:
        d1 = wvl * float(10 ** rng.uniform(-1.5, 0))       # sampling finer than the wavelength: still a unitary operator
    z = float(rng.choice([-1, 1]) * 10 ** rng.uniform(-6, 6))
    mclass = rng.integers(0, 6)
    m = [1.0, 1.0 + 1e-9, 1.0 - 1e-9, float(10 ** rng.uniform(-1, 1)), float(10 ** rng.uniform(-1, 1)), 2.0][mclass]
    if rng.random() < 0.1:
        m = float(10 ** rng.uniform(-9, 9))              # extreme (de)magnification: the same unitary operators
    zt = rng.integers(0, 4)
    if zt == 1:
        z = np.float64(z)
    elif zt == 2:
        z = int(np.sign(z) * max(1, round(abs(z)))) if abs(z) >= 0.5 else z
    return N, wvl, d1, z, m


def run(ctx, spec):
    import aotools
    op = aotools.opticalpropagation
    install(ctx, aotools)
    rng = ctx.rng
    for i in range(spec["n_calls"]):
        N, wvl, d1, z, m = rand_params(rng)
        kind = fields.KINDS[(i + spec["shard"]) % len(fields.KINDS)]
        U = fields.make_field(rng, N, kind)
        d2 = d1 * m
        if N >= 4 and i % 5 == 3:
            # output spacing exactly the natural single-FFT spacing lambda |z| / (N d1) (the grid the one-step propagator lands on):
            # an exact relation between five arguments that independent draws never hit
            # (the distance is chosen for a magnification of 0.1 .. 10)
            z = float(np.sign(float(z)) or 1.0) * float(10 ** rng.uniform(-1, 1)) * N * d1 * d1 / wvl
            d2 = wvl * abs(z) / (N * d1)
        nontriv = float(np.abs(U).sum()) > 0
        par = {"N": N, "kind": kind, "wvl": wvl, "d1": d1, "d2": d2, "z": float(z), "z_type": type(z).__name__}
        # every call below is judged by the installed contracts; aotools.opticalpropagation.* is the public path
        ctx.case("angularSpectrum", key=("as", N, kind, wvl, d1, d2, float(z)), nontrivial=nontriv, sample=par)
        op.angularSpectrum(U, wvl, d1, d2, z)
        ctx.case("oneStepFresnel", key=("one", N, kind, wvl, d1, float(z)), nontrivial=nontriv)
        op.oneStepFresnel(U, wvl, d1, z)
        ctx.case("twoStepFresnel", key=("two", N, kind, wvl, d1, d2, float(z)), nontrivial=nontriv, sample=par)
        op.twoStepFresnel(U, wvl, d1, d2, z)
        f = float(rng.choice([-1, 1]) * 10 ** rng.uniform(-3, 3))
        ctx.case("lensAgainst", key=("lens", N, kind, wvl, d1, f), nontrivial=nontriv)
        op.lensAgainst(U, wvl, d1, f)
        # linearity group (one propagator per iteration, round robin)
        if i % 2 == 0:
            ctx.count("linearity_groups")
            V = fields.make_field(rng, N, fields.KINDS[int(rng.integers(0, 6))])
            a, b = complex(rng.standard_normal(), rng.standard_normal()), complex(rng.standard_normal(), rng.standard_normal())
            which = (i // 2) % 4
            fn = [lambda W: op.angularSpectrum(W, wvl, d1, d2, z), lambda W: op.oneStepFresnel(W, wvl, d1, z),
                  lambda W: op.twoStepFresnel(W, wvl, d1, d2, z), lambda W: op.lensAgainst(W, wvl, d1, f)][which]
            name = ["angularSpectrum", "oneStepFresnel", "twoStepFresnel", "lensAgainst"][which]
            Uc = np.asarray(U, dtype=np.complex128)
            Vc = np.asarray(V, dtype=np.complex128)
            PU, PV = fn(Uc), fn(Vc)
            lhs = fn(a * Uc + b * Vc)
            rhs = a * PU + b * PV
            sc = abs(a) * float(np.abs(PU).max()) + abs(b) * float(np.abs(PV).max()) + 1e-300
            ctx.case("linearity:" + name, key=("lin", name, N, wvl, d1, d2, float(z), f), nontrivial=True)
            ctx.close("linearity:" + name, lhs, rhs, 256 * 2.3e-16 * (np.log2(N) + 1) * sc * N, name + ":linearity",
                      dict(par, f=f), scale=sc)
