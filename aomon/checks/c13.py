"""C13 -- Karhunen-Loeve modes are orthonormal and diagonalise the Kolmogorov covariance."""
import contextlib
import io

import numpy as np

LEVEL = "exploration"
TECHNIQUE = "reference-model monitor on the real KL generator: direct O(n^2) double-sum quadrature of the Kolmogorov covariance over the polar grid, analytic azimuthal functions and exact annulus indicator for the Cartesian rendering"
LEVEL_TEXT = ("For obscuration ratios 0.05..0.8, radial samplings 8..30, mode counts 3..n/15 the polar functions returned by the real "
              "generator are checked for orthonormality, zero mean and for diagonalising -1/2 <<K_i D K_j>> with a direct double sum over all "
              "pairs of grid points (sharing nothing with the azimuthal-FFT kernel), to 1e-10 on the native grid; variances positive, "
              "non-increasing, tip = tilt. The Cartesian rendering (odd and even sizes 16..128, masked or not) is compared with the "
              "annulus indicator exactly and with the polar function evaluated at each pixel's (r, theta); bases that share (ri, nr) are "
              "generated repeatedly in one process. Exploration.")
LEVEL_NOTE = "Trusted: the double-sum quadrature and geometry in this file. make_kl uses n_theta = floor(2 pi nr), where the identity is a quadrature approximation (tolerance 2e-3 of the largest variance, measured 1e-6..3e-4)."
RULE = "case = (ri, nr, n_theta, mode count) polar basis or (ri, nr, mode count, dim, mask) Cartesian rendering; non-trivial always; distinct by parameters"
ASSUMPTIONS = ["pixel (row i, column j) has x = (j - (dim-1)/2)/(dim/2), y likewise from the row; theta = atan2(y, x)",
               "Kolmogorov structure function 6.8839 (|x - x'|/2)^(5/3) with the pupil radius as unit length"]
REQUIRED = ["karhunenLoeve.py:gkl_basis", "karhunenLoeve.py:gkl_sfi", "karhunenLoeve.py:make_kl"]
REQUIRED_COUNTERS = ["polar_bases", "double_sum_entries", "cartesian_renderings", "repeat_generations_same_grid"]
TIMEOUT = {"quick": 900, "thorough": 7200}


def plan(tier, seed):
    awk = [19, 31, 33, 38] if tier == "quick" else [19, 31, 33, 38, 42, 49, 55, 60]
    return [{"shard": i, "polar": 1 if tier == "quick" else 24, "cart": 1 if tier == "quick" else 30, "max_nr": 18 if tier == "quick" else 30,
             "awkward": [nr for k, nr in enumerate(awk) if k % 16 == i]} for i in range(16)]


def quiet(fn, *a, **k):
    buf = io.StringIO()
    with contextlib.redirect_stdout(buf):
        return fn(*a, **k)


def polar_functions(KL, b):
    return np.array([KL.gkl_sfi(b, i) for i in range(b["nfunc"])])


def check_polar(ctx, KL, b, tol_rel, tag, wit):
    nr, npp, nf = int(b["nr"]), int(b["np"]), int(b["nfunc"])
    Kf = polar_functions(KL, b)
    if not ctx.check(Kf.shape == (nf, nr, npp), "polar:shape", "polar functions have shape %s" % (Kf.shape,), wit):
        return None
    K = Kf.reshape(nf, -1)
    n = nr * npp
    G = K @ K.T / n
    ev = np.asarray(b["evals"], dtype=float)
    ctx.close("gram", G, np.eye(nf), max(tol_rel, 1e-10), "polar:not_orthonormal:" + tag, wit)
    ctx.close("zero_mean", K.mean(axis=1), np.zeros(nf), max(tol_rel, 1e-10), "polar:not_piston_free:" + tag, wit)
    r = np.asarray(b["radp"], dtype=float)
    th = np.arange(npp) * 2 * np.pi / npp
    X = (r[:, None] * np.cos(th)[None, :]).ravel()
    Y = (r[:, None] * np.sin(th)[None, :]).ravel()
    C = np.zeros((nf, nf))
    blk = 1500
    for a in range(0, n, blk):          # blocked double sum over all pairs of grid points
        sep = np.hypot(X[a:a + blk, None] - X[None, :], Y[a:a + blk, None] - Y[None, :])
        D = 6.8839 * (sep / 2.0) ** (5.0 / 3.0)
        C += K[:, a:a + blk] @ D @ K.T
    C *= -0.5 / n ** 2
    ctx.count("double_sum_entries", n * n)
    ctx.metric("diagonalisation_err/var0:" + tag, float(np.abs(C - np.diag(ev)).max() / ev[0]))
    ctx.close("covariance_is_diag(variances)", C, np.diag(ev), tol_rel * ev[0] + 1e-300, "polar:does_not_diagonalise_kolmogorov:" + tag, wit, scale=ev[0])
    ctx.check(bool(np.all(ev > 0)), "variances:not_positive", "a returned variance is <= 0", wit)
    ctx.check(bool(np.all(np.diff(ev) <= 1e-12 * ev[0])), "variances:not_non_increasing", "returned variances increase somewhere", wit)
    ctx.close("tip_equals_tilt", ev[1], ev[0], 1e-10 * ev[0], "variances:tip_not_equal_tilt", wit, scale=ev[0])
    return Kf


# obscuration / size classes that are always present (spread over the shards): a vanishing but non-zero obscuration on an odd
# grid (a pixel centre at r = 0 lies inside the hole), pixel centres exactly on an edge, truthy masks of several types
HOSTILE_CART = [(1e-8, 17, True), (5e-9, 33, 1), (1e-3, 31, np.bool_(True)), (0.4, 25, True), (0.25, 16, 1), (0.5, 32, np.bool_(True)),
                (1e-8, 9, 1), (0.2, 65, True)]


def check_cartesian(ctx, KL, rng, max_nr, forced=None):
    ri = float(rng.choice([0.05, 0.1, 0.2, 0.25, 0.33, 0.5, 0.8, rng.uniform(0.05, 0.8), 1e-8, 1e-3]))
    nr = int(rng.integers(10, max_nr + 1))
    dim = int(rng.choice([16, 17, 24, 31, 32, 33, 47, 48, 63, 64, 65, 100, 128]))
    if forced is not None:
        ri, dim = float(forced[0]), int(forced[1])
    npp = int(2 * np.pi * nr)
    nmax = int(rng.integers(3, max(4, nr * npp // 15)))
    nmax = min(nmax, 40)
    mask_arg = [True, True, 1, np.bool_(True), False, 0, np.bool_(False)][int(rng.integers(0, 7))]   # truthy / falsy in several types
    if forced is not None:
        mask_arg = forced[2]
    mask = bool(mask_arg)
    wit = {"ri": ri, "nr": nr, "nmax": nmax, "dim": dim, "mask": repr(mask_arg)}
    ctx.count("cartesian_renderings")
    ctx.case("make_kl", key=(ri, nr, nmax, dim, mask), nontrivial=True, sample=wit)
    extra_kw = {"outerscale": float(rng.uniform(1, 20))} if rng.random() < 0.3 else {}     # ignored for Kolmogorov statistics
    kl, var, pupil, base = quiet(KL.make_kl, nmax, dim, ri=ri, nr=nr, mask=mask_arg, **extra_kw)
    par = "odd" if dim % 2 else "even"
    if not ctx.check(np.shape(kl) == (nmax, dim, dim) and np.shape(pupil) == (dim, dim) and len(var) == nmax, "make_kl:shapes",
                     "shapes %s %s %s" % (np.shape(kl), np.shape(pupil), np.shape(var)), wit):
        return
    c = (np.arange(dim) - (dim - 1) / 2.0) / (dim / 2.0)
    X, Y = np.meshgrid(c, c)          # x along axis 1 (columns), y along axis 0 (rows)
    R2 = X * X + Y * Y
    amb = (np.abs(R2 - 1.0) <= 1e-12) | (np.abs(R2 - ri * ri) <= 8 * 2.3e-16 * np.maximum(R2, ri * ri))
    ann = (R2 >= ri * ri) & (R2 <= 1.0)
    ctx.check(bool(np.all((pupil == ann.astype(float)) | amb)), "make_kl:pupil_is_not_the_annulus_indicator:" + par,
              "%d pixels of the returned pupil differ from [ri^2 <= x^2+y^2 <= 1]" % int(((pupil != ann) & ~amb).sum()), wit)
    if mask:
        out = ~ann & ~amb
        ctx.check(bool(np.all(kl[:, out] == 0)), "make_kl:nonzero_outside_annulus:" + par + (":mask_is_True" if mask_arg is True else ":mask_truthy"),
                  "a masked mode (mask=%r) is non-zero outside the annulus" % (mask_arg,), wit)
    ctx.check(np.array_equal(np.asarray(var), np.asarray(base["evals"])), "make_kl:variances_not_the_polar_ones", "returned variances differ from the polar basis'", wit)
    # polar identities on make_kl's own polar basis (quadrature approximation: n_theta = floor(2 pi nr))
    Kf = check_polar(ctx, KL, base, 2e-3, "make_kl_grid", wit)
    if Kf is None:
        return
    # Cartesian values follow the polar function at each pixel's (r, theta)
    d = (1 - ri * ri) / nr
    inside = ann & (R2 >= ri * ri + 1.5 * d) & (R2 <= 1 - 1.5 * d)      # stay clear of the clipped radial ends
    theta = np.arctan2(Y, X)
    radp2 = np.asarray(base["radp"], float) ** 2
    oords = np.asarray(base["ord"])
    worst = 0.0
    for i in range(nmax):
        o = int(oords[i])
        rad = np.asarray(base["rabas"])[:, i]
        rv = np.interp(R2[inside], radp2, rad)                       # linear in r^2, at the true radii of the polar grid
        az = 1.0 if o == 0 else (np.cos((o // 2 + 1) * theta[inside]) if o % 2 == 1 else np.sin((o // 2) * theta[inside]))
        want = rv * az
        got = kl[i][inside]
        rms = float(np.sqrt(np.mean(want ** 2))) + 1e-300
        dev = float(np.sqrt(np.mean((got - want) ** 2))) / rms
        m_az = (o + 1) // 2
        # resolved: enough pixels per azimuthal period at the inner radius, enough polar samples
        resolved = (m_az * 8 <= 2 * np.pi * max(ri, 0.15) * dim / 2.0) and (m_az * 8 <= npp) and int(inside.sum()) > 50
        if resolved:
            worst = max(worst, dev)
            ctx.count("oracle_evals")
            if dev > 0.2:
                ctx.fail("make_kl:cartesian_does_not_follow_polar:" + par, "mode %d (azimuthal order %d): RMS deviation from the polar function %.3f of its RMS" % (i, m_az, dev), dict(wit, mode=i))
    ctx.metric("cartesian_rms_deviation_max:" + par, worst)


def run(ctx, spec):
    import aotools
    from aotools.functions import karhunenLoeve as KL
    rng = ctx.rng
    for p in range(spec["polar"]):
        ri = float(rng.choice([0.05, 0.15, 0.25, 0.4, 0.6, 0.8, rng.uniform(0.05, 0.8)]))
        nr = int(rng.integers(8, spec["max_nr"] + 1))
        nmaxf = max(4, (5 * nr * nr) // 15)
        # the same (ri, nr) is generated several times in one process with different mode counts:
        # hidden state shared between calls (e.g. a memoised kernel that is modified in place) must not matter
        for rep, nf in enumerate([int(rng.integers(3, nmaxf)), int(rng.integers(3, nmaxf)), int(rng.integers(3, min(nmaxf, 30)))]):
            nf = min(nf, 60)
            wit = {"ri": ri, "nr": nr, "nfunc": nf, "generation": rep}
            ctx.count("polar_bases")
            if rep:
                ctx.count("repeat_generations_same_grid")
            ctx.case("gkl_basis", key=(ri, nr, nf, rep), nontrivial=True, sample=wit)
            if rep == 1:      # an outer scale passed along with a Kolmogorov tag must not change the statistics
                b = quiet(KL.gkl_basis, ri, nr, None, nf, str(rng.choice(["kolstf", "kolmogorov"])), float(rng.uniform(1, 20)))
            else:
                b = quiet(KL.gkl_basis, ri, nr, None, nf)
            ctx.check(int(b["np"]) == 5 * nr, "gkl_basis:native_grid", "native azimuthal sampling is %s, expected 5 nr" % b["np"], wit)
            check_polar(ctx, KL, b, 1e-10, "native_grid" + (":repeat" if rep else ""), wit)
    for c in range(spec["cart"]):
        check_cartesian(ctx, KL, rng, min(spec["max_nr"], 20))
    for k, forced in enumerate(HOSTILE_CART):
        if k % 16 == spec["shard"]:
            check_cartesian(ctx, KL, rng, min(spec["max_nr"], 20), forced=forced)
    # radial samplings whose float arithmetic is awkward (mgrid step rounding in rebin, a squared distance that rounds
    # below zero in the kernel): always present, spread over the shards
    awkward = spec.get("awkward", [])
    for nr in awkward:
        ri = 0.2
        wit = {"ri": ri, "nr": nr, "nfunc": 6, "class": "awkward_radial_sampling"}
        ctx.case("gkl_basis_awkward_nr", key=("awk", nr), nontrivial=True, sample=wit)
        b = quiet(KL.gkl_basis, ri, nr, None, 6)
        check_polar(ctx, KL, b, 1e-10, "native_grid", wit)
        kl, var, pupil, base = quiet(KL.make_kl, 6, 24, ri=ri, nr=nr)
        ctx.check(np.shape(kl) == (6, 24, 24) and bool(np.isfinite(kl).all()), "make_kl:awkward_radial_sampling", "make_kl(6, 24, nr=%d) returned shape %s / non-finite values" % (nr, np.shape(kl)), wit)
