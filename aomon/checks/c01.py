"""C01 -- slope covariance matrix equals the true covariance of the WFS slopes.

Monitor: an icontract post-condition on CovarianceMatrix.make_covariance_matrix
(evaluated on *every* build made by the workload, single- and multi-process)
compares the returned matrix with an independent four-point reference built from
the object's own configuration; a relation monitor checks additivity over layers
and the r0 / wavelength scaling laws on tagged groups of builds.
"""
import numpy as np

from aomon.oracles import slopecov, vk
from aomon.workloads import slopecfg

LEVEL = "exploration"
RULE = ("CovarianceMatrix configurations: deterministic hostile classes (asymmetric masks, off-axis and "
        "opposite guide stars, NGS/LGS mixes, per-WFS mask sizes / sub-aperture sizes / wavelengths, layers at "
        "altitude) then random ones; a case is non-trivial when the built matrix has >= 2 slopes and a non-zero "
        "reference; distinct = distinct configuration (masks, geometry, layers) or relation group")
ASSUMPTIONS = [
    "slope = phase difference across the projected sub-aperture / projected diameter * lambda/2pi (the normalisation r0_scale uses)",
    "mask size n_w * sub-aperture diameter d_w = telescope diameter for every WFS (geometry unambiguous)",
    "layers below every LGS altitude (cone factor > 0)",
    "global scale of the structure function may differ by the rounding of the published constant 0.17253 (<= 1e-3)",
]
REQUIRED = ["slopecovariance.py:CovarianceMatrix.make_covariance_matrix"]
REQUIRED_COUNTERS = ["contract_evals:C01", "relation_groups"]
TIMEOUT = {"quick": 900, "thorough": 5400}

EPS32 = float(np.finfo(np.float32).eps)
EPS64 = float(np.finfo(np.float64).eps)


def plan(tier, seed):
    n = 16 if tier == "quick" else 64
    per = 10 if tier == "quick" else 150
    return [{"shard": i, "n_shards": n, "n_random": per, "n_rel": 3 if tier == "quick" else 40,
             "max_n": 5 if tier == "quick" else 9, "n_mp": 1 if tier == "quick" else 6} for i in range(n)]


def cfg_of(obj):
    return {"n_wfs": obj.n_wfs, "pupil_masks": obj.pupil_masks, "telescope_diameter": obj.telescope_diameter,
            "subap_diameters": list(obj.subap_diameters), "gs_altitudes": list(obj.gs_altitudes),
            "gs_positions": [list(p) for p in obj.gs_positions], "wfs_wavelengths": list(obj.wfs_wavelengths),
            "n_layers": obj.n_layers, "layer_altitudes": list(obj.layer_altitudes),
            "layer_r0s": list(obj.layer_r0s), "layer_L0s": list(obj.layer_L0s)}


def judge_matrix(ctx, M, cfg, tag):
    """The post-condition proper. Returns nothing; records into ctx."""
    ctx.count("contract_evals:C01")
    wit = {"config": slopecfg.summary(cfg), "build": tag}
    n_sl = int(2 * sum(int(np.asarray(m).sum()) for m in cfg["pupil_masks"]))
    M = np.asarray(M)
    if not ctx.check(M.shape == (n_sl, n_sl), "shape", "matrix shape %s != (%d,%d)" % (M.shape, n_sl, n_sl), wit):
        return
    if not ctx.check(bool(np.isfinite(M).all()), "nonfinite", "matrix has non-finite entries", wit):
        return
    M64 = M.astype(np.float64)
    scale = float(np.abs(M64).max())
    # per-layer references (float64)
    Rl = [slopecov.reference_matrix(cfg, [l]) for l in range(cfg["n_layers"])]
    R = sum(Rl)
    Rabs = sum(np.abs(r) for r in Rl)
    rmax = float(np.abs(R).max())
    # symmetry
    asym = float(np.abs(M64 - M64.T).max())
    ctx.metric("asymmetry/max", asym / scale if scale else 0.0)
    ctx.check(asym <= 4 * EPS32 * scale, "asymmetric", "max |M - M^T| = %.3g (scale %.3g)" % (asym, scale), wit)
    # global scale (rounded published constant) then entry-wise comparison
    k = float((M64 * R).sum() / (R * R).sum()) if rmax > 0 else 1.0
    ctx.metric("abs(scale-1)", abs(k - 1.0))
    ctx.check(abs(k - 1.0) <= 1e-3, "global_scale", "best-fit scale of matrix vs reference = %.6f" % k, wit)
    # tolerance: float32 accumulation (one rounding per layer, bound eps32/2 * sum|R_l|; 16x margin)
    # + float64 cancellation noise of four structure-function values of size ~D_sat
    _, _, coef, _ = slopecov.slope_endpoints(cfg, 0)
    dsat = 0.0
    cc = None
    for l in range(cfg["n_layers"]):
        _, _, coef, _ = slopecov.slope_endpoints(cfg, l)
        t = 2.0 * vk.variance(cfg["layer_r0s"][l], cfg["layer_L0s"][l]) * np.abs(np.outer(coef, coef))     # a noise bound: coef is negative for layers above the guide star
        cc = t if cc is None else cc + t
    tol = 2 * (cfg["n_layers"] + 2) * EPS32 * Rabs + 256 * EPS64 * cc + 1e-300
    # "geometrically projected" does not say whether an off-axis footprint is displaced by h theta or by h tan(theta): the band
    # between the two readings (relative 1e-8 of the displacement at 40 arcsec) is not judged
    Rtan = sum(slopecov.reference_matrix(cfg, [l], projection="tangent") for l in range(cfg["n_layers"]))
    tol = tol + np.abs(Rtan - R)
    # the fitted scale k inherits the noise of the entries it is fitted on (dominant entries of a sensor whose projected
    # sub-apertures are ~1e-8 L0 carry 2e-5 of cancellation noise): worst-case propagation of the entry tolerances into k
    if rmax > 0:
        tol = tol + float((tol * np.abs(R)).sum() / (R * R).sum()) * np.abs(R)
    err = np.abs(M64 - k * R)
    ratio = float((err / tol).max())
    ctx.metric("entry_err/tol", ratio)
    ctx.metric("entry_err/max|R|", float(err.max() / rmax) if rmax else 0.0)
    if ratio > 1.0:
        i, j = np.unravel_index(int(np.argmax(err / tol)), err.shape)
        w = dict(wit)
        w.update({"index": [int(i), int(j)], "got": float(M64[i, j]), "want": float(k * R[i, j]),
                  "tol": float(tol[i, j]), "max|R|": rmax})
        ctx.fail("entry_mismatch", "entry (%d,%d): got %.6g want %.6g (tol %.2g, max|R| %.3g)"
                 % (i, j, M64[i, j], k * R[i, j], tol[i, j], rmax), w)
    # positive semi-definite up to single-precision rounding
    ev = np.linalg.eigvalsh(0.5 * (M64 + M64.T))
    lam_max = float(ev.max()) if ev.size else 0.0
    ctx.metric("min_eig/(-eps32*n*max_eig)", float(-ev.min() / (EPS32 * n_sl * lam_max)) if lam_max > 0 else 0.0)
    ctx.check(ev.min() >= -8 * EPS32 * n_sl * lam_max, "not_psd",
              "smallest eigenvalue %.3g < -8 eps32 n lambda_max (%.3g)" % (ev.min(), 8 * EPS32 * n_sl * lam_max), wit)


def install_contract(ctx, aotools):
    """icontract post-condition on the real method; returns True always (records instead of raising)."""
    from aomon import instrument
    sc = aotools.turbulence.slopecovariance

    def matrix_is_true_covariance(self, result):
        try:
            judge_matrix(ctx, result, cfg_of(self), "threads=%s" % self.threads)
        except Exception as e:  # oracle trouble must be visible, not swallowed
            ctx.fail("oracle_error", "reference computation failed: %r" % e, None)
        return True

    instrument.ensure_on_method(sc.CovarianceMatrix, "make_covariance_matrix", matrix_is_true_covariance, ctx, "C01")


def relations(ctx, aotools, cfg, rng):
    """Additivity over layers, r0^(-5/3), lambda_i*lambda_j -- on the implementation alone."""
    ctx.count("relation_groups")
    wit = {"config": slopecfg.summary(cfg)}
    base = slopecfg.construct(aotools, cfg).make_covariance_matrix().astype(np.float64)
    sc = float(np.abs(base).max())
    # float32 accumulation: one rounding per layer, each layer's contribution to entry (i,j) is bounded by
    # sqrt(M_ii M_jj) (Cauchy-Schwarz), so the rounding of an entry is <= (L+1) eps32/2 sqrt(M_ii M_jj)
    dg = np.sqrt(np.abs(np.diag(base)))
    cs_tol = 8 * EPS32 * (cfg["n_layers"] + 1) * np.outer(dg, dg)
    # additivity
    if cfg["n_layers"] >= 2:
        parts = []
        for l in range(cfg["n_layers"]):
            c1 = dict(cfg)
            c1.update(n_layers=1, layer_altitudes=[cfg["layer_altitudes"][l]], layer_r0s=[cfg["layer_r0s"][l]],
                      layer_L0s=[cfg["layer_L0s"][l]])
            parts.append(slopecfg.construct(aotools, c1).make_covariance_matrix().astype(np.float64))
        tol = cs_tol + 1e-300
        ctx.close("additivity_over_layers", base, sum(parts), tol, "additivity", wit, scale=sc)
    # r0 scaling (all layers scaled by c)
    c = float(rng.choice([0.5, 2.0, 3.7, 0.31]))
    c2 = dict(cfg)
    c2["layer_r0s"] = [r * c for r in cfg["layer_r0s"]]
    Mr = slopecfg.construct(aotools, c2).make_covariance_matrix().astype(np.float64)
    tol = cs_tol + 1e-300
    ctx.close("r0_scaling", Mr * c ** (5.0 / 3.0), base, tol, "r0_scaling", wit, scale=sc)
    # wavelength scaling of one sensor
    w = int(rng.integers(cfg["n_wfs"]))
    f = float(rng.choice([2.0, 0.5, 1.37]))
    c3 = dict(cfg)
    c3["wfs_wavelengths"] = [l * (f if i == w else 1.0) for i, l in enumerate(cfg["wfs_wavelengths"])]
    Ml = slopecfg.construct(aotools, c3).make_covariance_matrix().astype(np.float64)
    ns = [int(2 * np.asarray(m).sum()) for m in cfg["pupil_masks"]]
    fac = np.concatenate([np.full(n, f if i == w else 1.0) for i, n in enumerate(ns)])
    tol = cs_tol * np.outer(fac, fac) + 1e-300
    ctx.close("wavelength_scaling", Ml, base * np.outer(fac, fac), tol, "wavelength_scaling", wit, scale=sc)


def check_pair_functions(ctx, aotools, rng):
    """The building blocks (public functions) on separations where slope end points of the two sensors coincide exactly:
    sub-aperture grids offset by multiples of half a sub-aperture. Reference: the four-point formula on the end points."""
    from aotools.turbulence import slopecovariance as sc
    d1 = float(rng.choice([0.5, 0.25, 0.125, 1.0]))
    d2 = d1 if rng.random() < 0.6 else float(rng.choice([0.5, 0.25, 0.125, 1.0]))
    r0, L0 = float(10 ** rng.uniform(-1.3, 0.3)), float(rng.choice([10.0, 25.0, 100.0, 1e4]))
    n1, n2 = int(rng.integers(2, 6)), int(rng.integers(2, 6))
    h = 0.5 * min(d1, d2)
    sep = rng.integers(-6, 7, (n1, n2, 2)).astype(np.float64) * h        # multiples of half the smaller sub-aperture
    B0 = vk.variance(r0, L0)
    D = lambda v: vk.structure_function(np.sqrt((v ** 2).sum(-1)), r0, L0)
    ex, ey = np.array([1.0, 0.0]), np.array([0.0, 1.0])
    wit = {"d1": d1, "d2": d2, "r0": r0, "L0": L0, "separations_in_units_of_half_subap": True}
    ctx.case("pair_functions_on_lattice", key=("pair", d1, d2, r0, L0, float(sep.sum())), nontrivial=True, sample=wit)
    for name, fn, u, v in (("compute_covariance_xx", sc.compute_covariance_xx, ex, ex), ("compute_covariance_yy", sc.compute_covariance_yy, ey, ey),
                           ("compute_covariance_xy", sc.compute_covariance_xy, ex, ey)):
        got = np.asarray(fn(sep.copy(), d1, d2, r0, L0), dtype=np.float64)
        a, b = 0.5 * d1 * u, -0.5 * d1 * u
        c, e = sep + 0.5 * d2 * v, sep - 0.5 * d2 * v
        want = D(a - e) + D(b - c) - D(a - c) - D(b - e)
        ctx.count("pair_function_entries", want.size)
        coinc = int(((np.abs(a - e).sum(-1) == 0) | (np.abs(b - c).sum(-1) == 0) | (np.abs(a - c).sum(-1) == 0) | (np.abs(b - e).sum(-1) == 0)).sum())
        ctx.count("pair_function_entries_with_coincident_end_points", coinc)
        if ctx.check(got.shape == want.shape, name + ":shape", "shape %s, expected %s" % (got.shape, want.shape), wit):
            ctx.close(name + "_vs_four_point_formula", got, want, 1e-3 * np.abs(want) + 256 * EPS64 * 2 * B0,     # one rounded constant multiplies all four terms
                      name + ":four_point_formula" + (":coincident_end_points" if coinc else ""), wit, scale=2 * B0)


def run(ctx, spec):
    import aotools
    chk = vk.self_check(n_mp=4, n_hankel=2, seed=ctx.seed)
    ctx.metric("oracle_selfcheck:closed_vs_mpmath", chk["closed_vs_mpmath"])
    ctx.metric("oracle_selfcheck:closed_vs_hankel", chk["closed_vs_hankel_exact_constant"])
    if chk["closed_vs_mpmath"] > 1e-10 or chk["closed_vs_hankel_exact_constant"] > 1e-3:
        raise RuntimeError("turbulence reference library disagrees with itself: %r" % chk)
    install_contract(ctx, aotools)
    rng = ctx.rng
    det_rng = np.random.default_rng([ctx.seed, 101])
    hostile = slopecfg.hostile_configs(det_rng, max_n=spec["max_n"])
    mine = [c for i, c in enumerate(hostile) if i % spec["n_shards"] == spec["shard"]]
    cfgs = mine + [slopecfg.make_config(rng, max_n=spec["max_n"]) for _ in range(spec["n_random"])]
    n_mp = 0
    for i, cfg in enumerate(cfgs):
        n_sl = int(2 * sum(int(m.sum()) for m in cfg["pupil_masks"]))
        ctx.case("build:" + str(cfg.get("class")), key=slopecfg.key(cfg), nontrivial=n_sl >= 2,
                 sample=slopecfg.summary(cfg))
        obj = slopecfg.construct(aotools, cfg, threads=1, as_arrays=bool(i % 3 == 1))
        obj.make_covariance_matrix()  # judged by the contract
        if n_mp < spec["n_mp"] and cfg["n_wfs"] >= 2:
            n_mp += 1
            ctx.case("build_mp", key=slopecfg.key(cfg) + "mp", nontrivial=True)
            try:
                slopecfg.construct(aotools, cfg, threads=2).make_covariance_matrix()
            finally:
                slopecfg.kill_pools()
    for j in range(4 * spec["n_rel"]):
        check_pair_functions(ctx, aotools, rng)
    for j in range(spec["n_rel"]):
        cfg = slopecfg.make_config(rng, max_n=min(4, spec["max_n"]))
        ctx.case("relation_group", key=slopecfg.key(cfg) + "rel", nontrivial=True)
        relations(ctx, aotools, cfg, rng)

TECHNIQUE = "icontract post-condition on the real builder vs independent reference model; relation monitor over tagged build groups"
LEVEL_TEXT = ("Every matrix returned during randomised and hostile workloads (single- and multi-process builds) is compared entry-wise "
              "with an independent four-point float64 reference, and checked for symmetry, PSD-ness, layer additivity and the r0 / wavelength "
              "scaling laws. Held on the configurations observed (<= 4 WFS, masks <= 8x8); exploration is the right level because the "
              "quantifier ranges over continuous geometry and no finite enumeration exists.")
LEVEL_NOTE = ("Trusted: the reference model in aomon/oracles (triangulated against mpmath and a Hankel transform of the PSD at run time), "
              "NumPy/SciPy. Assumes projected-diameter slope normalisation and n_w*d_w = telescope diameter.")
