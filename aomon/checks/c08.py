"""C08 -- all closed-form turbulence statistics describe one von Karman model."""
import numpy as np

from aomon.core import pure_call
from aomon.oracles import vk
from aomon.probes import ScriptedGenerator, unit_script, discover_shapes, unit_stream_script

LEVEL = "exploration"
TECHNIQUE = "reference-model monitor (closed form + series, Hankel transform of the probed PSD, mpmath) and mutual-consistency relation monitor on the five real functions"
LEVEL_TEXT = ("The five functions are evaluated on common arguments (separations from 0 and 1e-6 L0 to 1e4 L0, log-uniform, scalars / 0-d / "
              "n-d / float32, r0 and L0 over decades, usually several r0 per (grid, L0) in one process) and judged against an independent "
              "float64 reference that is itself triangulated at run time (ascending series vs Bessel-K closed form vs 40-digit mpmath vs a "
              "Hankel transform of the spectrum); the spectrum the screen generator really uses is observed through unit-draw probes and "
              "must be the one that is Hankel-transformed. D(0)=0, monotonicity, saturation, r0 scaling, Kolmogorov limit and positive "
              "semi-definiteness of covariance matrices on random / gridded / collinear / duplicate point sets. Exploration.")
LEVEL_NOTE = "Trusted: the reference in aomon/oracles/vk.py (self-checked each run), SciPy quad/Bessel, mpmath. Published-constant rounding (0.17253, 6.88, 0.023, 0.0863) is accepted up to 0.6 %."
RULE = "case = (clause, r / point set, r0, L0, argument class); non-trivial when r > 0; distinct by values"
ASSUMPTIONS = ["stf_vonKarman_yao is judged only inside its series' validity r <= 0.1 L",
               "phase_covariance evaluates in single precision (it casts r to float32): tolerance 16 eps32 B(0)"]
REQUIRED = ["turb.py:phase_covariance", "slopecovariance.py:structure_function_vk", "slopecovariance.py:structure_function_kolmogorov",
            "karhunenLoeve.py:stf_kolmogorov", "karhunenLoeve.py:stf_vonKarman", "karhunenLoeve.py:stf_vonKarman_yao", "karhunenLoeve.py:gkl_kernel", "phasescreen.py:ft_phase_screen"]
REQUIRED_COUNTERS = ["psd_probes", "hankel_comparisons", "point_sets", "argument_shadow_checks"]
EPS32 = float(np.finfo(np.float32).eps)


def plan(tier, seed):
    return [{"shard": i, "reps": 12 if tier == "quick" else 8000, "n_hankel": 2 if tier == "quick" else 60,
             "n_sets": 4 if tier == "quick" else 2000} for i in range(16)]


def arg_class(rng, r):
    k = int(rng.integers(0, 7))
    if k == 5 and r.size >= 6:      # a transposed (Fortran-ordered) non-symmetric 2-D view
        m = r[: (r.size // 3) * 3].reshape(3, -1)
        return np.ascontiguousarray(m.T).T, "float64_transposed_view"
    if k == 6 and r.size >= 6:
        return np.asfortranarray(r[: (r.size // 2) * 2].reshape(2, -1)), "float64_fortran"
    k = k % 5
    if k == 0:
        return r, "float64_1d"
    if k == 1:
        return r.reshape(2, -1) if r.size % 2 == 0 else r, "float64_nd"
    if k == 2:
        return r.astype(np.float32), "float32"
    if k == 3:
        return float(r[len(r) // 2]), "scalar"
    return np.array(r[len(r) // 2]), "0d"


def shape_check(ctx, D, Dref, canc, rel, name, wit):
    """D must be one constant times the reference: the constant is fitted where D is well above the cancellation floor."""
    good = Dref > 1e4 * canc
    if good.sum() < 2:
        return
    im = int(np.argmax(Dref))               # the largest value carries the least cancellation noise
    k = float(D[im] / Dref[im])
    ctx.count("shape_checks")
    ctx.metric("abs(k-1):" + name, abs(k - 1))
    ctx.check(abs(k - 1) <= 1e-3, name + ":constant", "best-fit constant vs the reference is %.6f" % k, wit)
    ctx.close(name + "_shape", D, k * Dref, rel * Dref + 2 * canc, name + ":shape_differs_from_von_karman", dict(wit, fitted_constant=k), scale=float(Dref.max()))


def run(ctx, spec):
    import aotools
    from aotools.turbulence import slopecovariance as sc, turb
    from aotools.functions import karhunenLoeve as KL
    rng = ctx.rng
    chk = vk.self_check(n_mp=6, n_hankel=2, seed=ctx.seed + spec["shard"])
    ctx.metric("oracle_selfcheck:closed_vs_mpmath", chk["closed_vs_mpmath"])
    ctx.metric("oracle_selfcheck:closed_vs_hankel", chk["closed_vs_hankel_exact_constant"])
    if chk["closed_vs_mpmath"] > 1e-10 or chk["closed_vs_hankel_exact_constant"] > 1e-3:
        raise RuntimeError("turbulence reference library disagrees with itself: %r" % chk)

    for rep in range(spec["reps"]):
        L0 = float(10 ** rng.uniform(-0.3, 4))
        r0s = [float(10 ** rng.uniform(-2, 0.3)) for _ in range(2)]   # several r0 for one L0 in one process
        n = 2 * int(rng.integers(3, 12))
        # separations from far below the outer scale (where D is ~1e-12 of its saturation value and a Kolmogorov
        # shortcut would still be 0.3-0.7 % off) to far above it
        r_full = np.sort(np.concatenate([[0.0, 1e-6 * L0, 0.9e-7 * L0, 5e-8 * L0, 1.5e-7 * L0, 3e-7 * L0], L0 * 10 ** rng.uniform(-6, 4, n - 4),
                                         L0 * 10 ** rng.uniform(-8, -6, 2)]))
        for r0 in r0s:
            r, cls = arg_class(rng, r_full.copy())
            wit = {"r0": r0, "L0": L0, "arg_class": cls}
            F = lambda v: np.atleast_1d(np.asarray(v, dtype=np.float64)).ravel()
            rr = F(r)
            ctx.case("five_functions", key=(r0, L0, cls, float(rr.sum())), nontrivial=True, sample=dict(wit, r=rr[:6]))
            B0ref = vk.variance(r0, L0)
            Dref = vk.structure_function(rr, r0, L0)
            Bref = vk.covariance(rr, r0, L0)
            Draw = pure_call(ctx, "structure_function_vk", sc.structure_function_vk, r, r0, L0)
            Braw = pure_call(ctx, "phase_covariance", turb.phase_covariance, r, r0, L0)
            ctx.check(np.shape(Draw) == np.shape(r) and np.shape(Braw) == np.shape(r), "output_shape",
                      "output shapes %s / %s for input shape %s" % (np.shape(Draw), np.shape(Braw), np.shape(r)), wit)
            D, B = F(Draw), F(Braw)
            # a float32 separation array makes NumPy evaluate the whole formula in single precision
            e_a = EPS32 if cls == "float32" else 2.3e-16
            canc = 64 * e_a * 2 * B0ref          # cancellation in 1 - x^(5/6) K(x) at the size of the saturation value
            ctx.check(bool(np.all(np.isfinite(D)) and np.all(np.isfinite(B))), "nonfinite", "non-finite value returned", wit)
            # vs the reference (constant rounding <= 1e-3, cancellation 64 eps D_sat)
            ctx.close("D_vs_reference", D, Dref, 1e-3 * Dref + canc, "structure_function_vk:reference", wit, scale=2 * B0ref)
            # the only licence is the rounding of ONE published constant: D = k D_ref with the same k (|k - 1| <= 1e-3) at every separation
            shape_check(ctx, D, Dref, canc, 64 * e_a, "structure_function_vk", wit)
            # (both functions evaluate in the precision of the separation array: double unless it is float32)
            e_b = 16 * EPS32 * B0ref if cls == "float32" else canc
            ctx.close("B_vs_reference", B, Bref, 1e-3 * np.abs(Bref) + e_b, "phase_covariance:reference", wit, scale=B0ref)
            # D = 2 (B(0) - B(r))
            Bz = float(np.asarray(turb.phase_covariance(0.0, r0, L0)))
            ctx.close("D=2(B0-B)", D, 2 * (Bz - B), 1e-3 * Dref + e_b + canc, "D_equals_2_B0_minus_B", wit, scale=2 * B0ref)
            ctx.close("2(B0-B)_vs_reference", 2 * (Bz - B), Dref, 1e-3 * Dref + 2 * e_b, "phase_covariance:implied_structure_function", wit, scale=2 * B0ref)
            ctx.close("B(0)=0.0863(L0/r0)^(5/3)", Bz, 0.0863 * (L0 / r0) ** (5 / 3.), 2e-3 * Bz, "phase_covariance:variance_constant", wit, scale=Bz)
            # zero, monotone, saturation
            zero_idx = (rr == 0)
            ctx.check(bool(np.all(D[zero_idx] == 0)), "structure_function_vk:zero_at_zero", "D(0) = %r" % (D[zero_idx],), wit)
            if rr.size > 2:      # rr is sorted
                ctx.check(bool(np.all(np.diff(D) >= -canc)), "structure_function_vk:monotone", "D decreases somewhere", wit)
            big = float(np.asarray(sc.structure_function_vk(np.float64(60 * L0), r0, L0)))
            ctx.close("saturation=2B(0)", big, 2 * Bz, 2e-3 * big, "structure_function_vk:saturation", wit, scale=big)
            ctx.close("saturation=2*0.0863", big, 2 * 0.0863 * (L0 / r0) ** (5 / 3.), 2e-3 * big, "structure_function_vk:saturation_constant", wit, scale=big)
            # r0 scaling
            c = float(rng.uniform(0.2, 5))
            D2 = F(sc.structure_function_vk(r, r0 * c, L0))
            ctx.close("D_r0_scaling", D2 * c ** (5 / 3.), D, 1e-12 * 2 * B0ref + (canc if cls == "float32" else 0), "structure_function_vk:r0_scaling", wit, scale=2 * B0ref)
            B2 = F(turb.phase_covariance(r, r0 * c, L0))
            ctx.close("B_r0_scaling", B2 * c ** (5 / 3.), B, 8 * EPS32 * B0ref if cls == "float32" else 1e-12 * B0ref, "phase_covariance:r0_scaling", wit, scale=B0ref)
            # the same physical situation in other length units (all lengths scaled together) gives the same numbers
            cu = float(10 ** rng.uniform(-9, 3))
            Du = F(sc.structure_function_vk(np.asarray(r, dtype=np.float64) * cu, r0 * cu, L0 * cu))
            Bu = F(turb.phase_covariance(np.asarray(r, dtype=np.float64) * cu, r0 * cu, L0 * cu))
            D64 = F(sc.structure_function_vk(np.asarray(r, dtype=np.float64), r0, L0))
            B64 = F(turb.phase_covariance(np.asarray(r, dtype=np.float64), r0, L0))
            cancu = 64 * 2.3e-16 * 2 * B0ref
            ctx.close("D_unit_invariance", Du, D64, 1e-9 * Dref + cancu, "structure_function_vk:length_unit_invariance", dict(wit, unit=cu), scale=2 * B0ref)
            ctx.close("B_unit_invariance", Bu, B64, 1e-9 * np.abs(Bref) + cancu, "phase_covariance:length_unit_invariance", dict(wit, unit=cu), scale=B0ref)
            Dku = F(KL.stf_vonKarman(np.asarray(r, dtype=np.float64) * cu, L0 * cu)) * cu ** (-5 / 3.)    # r0 = 1 in the scaled unit is r0 = 1/cu in the old one: D scales by cu^(5/3)
            ctx.close("KL_unit_invariance", Dku, F(sc.structure_function_vk(np.asarray(r, dtype=np.float64), 1.0, L0)), 1e-9 * vk.structure_function(rr, 1.0, L0) + 64 * 2.3e-16 * 2 * vk.variance(1.0, L0),
                      "stf_vonKarman:length_unit_invariance", dict(wit, unit=cu), scale=2 * vk.variance(1.0, L0))
            # the KL module's copies (r in units where r0 = 1)
            Dk = F(pure_call(ctx, "stf_vonKarman", KL.stf_vonKarman, r, L0))
            D1 = F(sc.structure_function_vk(r, 1.0, L0))
            B01 = vk.variance(1.0, L0)
            canc1 = 64 * e_a * 2 * B01
            ref1 = vk.structure_function(rr, 1.0, L0)
            ctx.close("KL_copy_vs_slopecov_copy", Dk, D1, 1e-3 * ref1 + canc1, "stf_vonKarman:agrees_with_structure_function_vk", wit, scale=2 * B01)
            ctx.close("KL_copy_vs_reference", Dk, ref1, 1e-3 * ref1 + canc1, "stf_vonKarman:reference", wit, scale=2 * B01)
            shape_check(ctx, Dk, ref1, canc1, 64 * e_a, "stf_vonKarman", wit)
            ctx.check(bool(np.all(Dk[zero_idx] == 0)), "stf_vonKarman:zero_at_zero", "stf_vonKarman(0) = %r" % (Dk[zero_idx],), wit)
            valid = (rr <= 0.1 * L0)
            if np.any(valid):
                Dy = F(pure_call(ctx, "stf_vonKarman_yao", KL.stf_vonKarman_yao, r, L0))
                ctx.close("yao_series_vs_reference", Dy[valid] / np.where(ref1[valid] > 0, ref1[valid], 1), np.where(ref1[valid] > 0, 1.0, 0.0),
                          5e-3 + (64 * EPS32 if cls == "float32" else 0), "stf_vonKarman_yao:reference", wit)
            # Kolmogorov forms
            Kk = F(pure_call(ctx, "stf_kolmogorov", KL.stf_kolmogorov, r))
            Ks = F(pure_call(ctx, "structure_function_kolmogorov", sc.structure_function_kolmogorov, r, 1.0))
            kol1 = 6.88 * rr ** (5 / 3.)
            ctx.close("kolmogorov_copies", (Kk - Ks) / np.where(kol1 > 0, kol1, 1), np.zeros_like(kol1), 1e-3, "kolmogorov:copies_agree", wit)
            Ks0 = F(sc.structure_function_kolmogorov(r, r0))
            kol = 6.88 * (rr / r0) ** (5 / 3.)
            ctx.close("kolmogorov_law", (Ks0 - kol) / np.where(kol > 0, kol, 1), np.zeros_like(kol), 1e-3, "kolmogorov:law", wit)
        # fine scan: D never decreases and B never increases between neighbouring separations (ratio 1.002, 1e-9 L0 .. 1e2 L0)
        r0 = r0s[0]
        scan = L0 * 1.002 ** np.arange(int(np.log(1e-9) / np.log(1.002)), int(np.log(1e2) / np.log(1.002)))
        Ds = F(sc.structure_function_vk(scan, r0, L0))
        Bs = F(turb.phase_covariance(scan, r0, L0))
        Dks = F(KL.stf_vonKarman(scan, L0))
        cz = 64 * 2.3e-16 * 2 * vk.variance(r0, L0)
        wsc = {"r0": r0, "L0": L0, "scan": "L0 * 1.002^k, 1e-9..1e2 L0", "points": int(scan.size)}
        ctx.case("monotone_scan", key=("scan", r0, L0), nontrivial=True, sample=wsc)
        ctx.count("scan_points", int(scan.size))
        for nm, arr, sgn, cz_ in (("structure_function_vk", Ds, 1, cz), ("phase_covariance", Bs, -1, cz), ("stf_vonKarman", Dks, 1, 64 * 2.3e-16 * 2 * vk.variance(1.0, L0))):
            d = sgn * np.diff(arr)
            k = int(np.argmin(d))
            ctx.check(bool(d[k] >= -cz_), nm + ":monotone:fine_scan",
                      "%s moves the wrong way by %.3g (cancellation floor %.3g) between r = %.6g L0 and the next scan point" % (nm, -d[k], cz_, scan[k] / L0), dict(wsc, r_over_L0=float(scan[k] / L0)))
        # separations at and next to "round" values of x = 2 pi r / L0 (where a piecewise evaluation would switch formulas):
        # the doubles within 3 ulp of x L0 / (2 pi) for x = 1/8 .. 128
        xs = np.concatenate([np.arange(1, 65) * 0.5, [36.0, 40.0, 48.0, 50.0, 64.0, 80.0, 100.0, 128.0, 0.125, 0.25]])
        rx = xs * L0 / (2 * np.pi)
        cand = [rx]
        up, dn = rx.copy(), rx.copy()
        for _ in range(3):
            up, dn = np.nextafter(up, np.inf), np.nextafter(dn, 0.0)
            cand += [up.copy(), dn.copy()]
        rr_x = np.sort(np.concatenate(cand))
        ctx.case("round_x_probes", key=("roundx", r0, L0), nontrivial=True, sample={"r0": r0, "L0": L0, "points": int(rr_x.size)})
        ctx.count("round_x_points", int(rr_x.size))
        Dx, Bx, Dkx = F(sc.structure_function_vk(rr_x, r0, L0)), F(turb.phase_covariance(rr_x, r0, L0)), F(KL.stf_vonKarman(rr_x, L0))
        wx = {"r0": r0, "L0": L0, "class": "2 pi r / L0 within 3 ulp of a round value"}
        shape_check(ctx, Dx, vk.structure_function(rr_x, r0, L0), cz, 64 * 2.3e-16, "structure_function_vk", wx)
        shape_check(ctx, Dkx, vk.structure_function(rr_x, 1.0, L0), 64 * 2.3e-16 * 2 * vk.variance(1.0, L0), 64 * 2.3e-16, "stf_vonKarman", wx)
        ctx.close("B_vs_reference_round_x", Bx, vk.covariance(rr_x, r0, L0), 1e-3 * np.abs(vk.covariance(rr_x, r0, L0)) + cz, "phase_covariance:reference", wx, scale=vk.variance(r0, L0))
        # Kolmogorov limit: for fixed r the von Karman value rises towards 6.88 (r/r0)^(5/3) as L0 grows
        r0 = r0s[0]
        rfix = float(10 ** rng.uniform(-2, 1))
        Ls = rfix * np.array([1e2, 1e3, 1e4, 1e5, 1e6])
        ratio = np.array([float(np.asarray(sc.structure_function_vk(rfix, r0, L))) for L in Ls]) / (6.88 * (rfix / r0) ** (5 / 3.))
        ctx.case("kolmogorov_limit", key=(rfix, r0), nontrivial=True, sample={"r": rfix, "r0": r0, "L0/r": [1e2, 1e6], "ratio": ratio})
        ctx.check(bool(np.all(np.diff(ratio) > 0)), "kolmogorov_limit:monotone", "D_vk/D_kolmogorov does not increase with L0: %s" % ratio.tolist(), {"r": rfix, "r0": r0})
        want = 1 - 1.485 * (rfix / Ls) ** (1 / 3.)
        ctx.close("kolmogorov_limit_rate", ratio, want, 4e-3, "kolmogorov_limit:rate", {"r": rfix, "r0": r0})
        ctx.check(abs(ratio[-1] - 1) <= 0.02, "kolmogorov_limit:value", "ratio at L0 = 1e6 r is %.4f" % ratio[-1], {"r": rfix, "r0": r0})

    # Hankel transform of the PSD the screen generator actually uses
    for h in range(spec["n_hankel"]):
        N = int(rng.choice([8, 12, 16]))
        delta = float(10 ** rng.uniform(-2, 0))
        r0 = float(10 ** rng.uniform(-1, 0))
        L0 = float(10 ** rng.uniform(0, 2))
        del_f = 1.0 / (N * delta)
        # (a) observe the generator's spectrum through unit draws (inner scale switched off as the infinite screens do)
        for _ in range(6):
            i, j = int(rng.integers(0, N)), int(rng.integers(0, N))
            if (i, j) == (N // 2, N // 2):
                continue
            g = ScriptedGenerator(unit_stream_script(i * N + j, discover_shapes(aotools.ft_phase_screen, r0, N, delta, L0, 1e-10)))
            s = aotools.ft_phase_screen(r0, N, delta, L0, 1e-10, seed=g)
            ctx.count("psd_probes")
            psd_obs = (float(np.abs(s).max()) / del_f) ** 2
            f = np.hypot((i - N / 2.0) * del_f, (j - N / 2.0) * del_f)
            psd_law = vk.psd(f, r0, L0, 0.023)
            ctx.case("psd_probe", key=(N, delta, r0, L0, i, j), nontrivial=True)
            ctx.close("probed_psd_vs_law", psd_obs, psd_law, 1e-10 * psd_law, "screen_psd:is_0.023_r0^-5/3_(f^2+L0^-2)^-11/6", {"N": N, "delta": delta, "r0": r0, "L0": L0, "f": f}, scale=psd_law)
        # (b) Hankel transform of that law vs both closed forms
        r = float(L0 * 10 ** rng.uniform(-2, 0.7))
        ctx.count("hankel_comparisons")
        Dh = vk.hankel_structure_function(r, r0, L0, c=0.023)
        D = float(np.asarray(sc.structure_function_vk(r, r0, L0)))
        Bz = float(np.asarray(turb.phase_covariance(0.0, r0, L0)))
        Br = float(np.asarray(turb.phase_covariance(r, r0, L0)))
        w = {"r": r, "r0": r0, "L0": L0}
        ctx.case("hankel", key=(r, r0, L0), nontrivial=True, sample=w)
        ctx.close("D_vs_hankel_of_psd", D, Dh, 7e-3 * Dh, "structure_function_vk:hankel_of_screen_psd", w, scale=Dh)
        ctx.close("2(B0-B)_vs_hankel_of_psd", 2 * (Bz - Br), Dh, 7e-3 * Dh + 32 * EPS32 * Bz, "phase_covariance:hankel_of_screen_psd", w, scale=Dh)

    # the structure function inside the Karhunen-Loeve kernel (both statistics tags) is the same model: undo the azimuthal
    # FFT of the kernel and compare with the reference at the chord lengths the kernel is defined on
    for kk in range(2 if spec["reps"] <= 12 else 10):
        ri = float(rng.uniform(0.05, 0.7))
        nr = int(rng.integers(4, 10))
        outer = float(10 ** rng.uniform(-0.3, 1.5))
        if kk == 0:
            outer = float(rng.uniform(0.5, 2.0))        # always present: an outer scale of the order of the pupil, where a truncated series fails
        rad = KL.gkl_radii(ri, nr)
        nth = 5 * nr
        fnorm = 0.5 * (-1) / (2 * np.pi * (1 - ri ** 2))
        ang = np.arange(nth) * 2 * np.pi / nth
        vkD, koD = (lambda c: vk.structure_function(c, 1.0, outer)), (lambda c: 6.8839 * c ** (5 / 3.))
        # every documented alias of the two statistics
        for tag, refD in (("vk", vkD), ("kolmogorov", koD), ("vonKarman", vkD), ("karman", vkD), ("kolstf", koD)):
            import warnings
            with warnings.catch_warnings():
                warnings.simplefilter("ignore")
                ker = pure_call(ctx, "gkl_kernel", KL.gkl_kernel, ri, nr, rad, tag, outer if refD is vkD else None)
            ctx.case("kl_kernel_content", key=(ri, nr, outer, tag), nontrivial=True, sample={"ri": ri, "nr": nr, "outerscale": outer, "stf": tag})
            i, j = int(rng.integers(0, nr)), int(rng.integers(0, nr))
            sf = np.fft.ifft(ker[i, j, :] / (fnorm * 2 * np.pi / nth)).real
            chord = 0.5 * np.sqrt(np.maximum(rad[i] ** 2 + rad[j] ** 2 - 2 * rad[i] * rad[j] * np.cos(ang), 0))
            want = refD(chord)
            kfit = float(sf[int(np.argmax(want))] / want.max())
            ctx.metric("kl_kernel_shape_residual/max", float(np.abs(sf - kfit * want).max() / want.max()))
            # one rounded constant is the only licence: the kernel's structure function is k times the model at every chord (measured 4e-14)
            ctx.close("kl_kernel_structure_function_shape:" + tag, sf, kfit * want, 1e-10 * float(want.max()),
                      "gkl_kernel:structure_function_shape:" + ("vk" if refD is vkD else "kolmogorov") + ("" if tag in ("vk", "kolmogorov") else ":alias"),
                      {"ri": ri, "nr": nr, "outerscale": outer, "i": i, "j": j, "stf": tag, "fitted_constant": kfit}, scale=float(want.max()))
            ctx.close("kl_kernel_structure_function:" + tag, sf, want, 1e-3 * want + 1e-9 * float(want.max()), "gkl_kernel:structure_function:" + ("vk" if refD is vkD else "kolmogorov") + ("" if tag in ("vk", "kolmogorov") else ":alias"),
                      {"ri": ri, "nr": nr, "outerscale": outer, "i": i, "j": j}, scale=float(want.max()))

    # positive semi-definiteness of covariance matrices between arbitrary points
    for s in range(spec["n_sets"]):
        n = int(rng.integers(5, 61))
        kind = int(rng.integers(0, 4))
        L0 = float(10 ** rng.uniform(-0.3, 3))
        r0 = float(10 ** rng.uniform(-1.5, 0.3))
        ext = L0 * 10 ** rng.uniform(-2, 1)
        if s % 4 == 3:
            ext = L0 * 10 ** rng.uniform(-6.5, -4)        # point sets far smaller than the outer scale (pitch ~1e-7 L0)
        if kind == 0:
            P = rng.uniform(-ext, ext, (n, 2))
        elif kind == 1:
            g = int(np.ceil(np.sqrt(n)))
            P = np.array([(i, j) for i in range(g) for j in range(g)], float)[:n] * ext / g
        elif kind == 2:
            P = np.outer(rng.uniform(-ext, ext, n), [0.6, 0.8])
        else:
            P = rng.uniform(-ext, ext, (n, 2))
            P[n // 2:] = P[: n - n // 2]     # duplicates
        sep = np.sqrt(((P[:, None, :] - P[None, :, :]) ** 2).sum(-1))
        Cm = np.asarray(pure_call(ctx, "phase_covariance", turb.phase_covariance, sep, r0, L0), dtype=np.float64)
        ctx.count("point_sets")
        ctx.case("psd_matrix", key=(n, kind, L0, r0, float(sep.sum())), nontrivial=True, sample={"n": n, "kind": kind, "L0": L0, "r0": r0, "extent": ext})
        ev = np.linalg.eigvalsh(0.5 * (Cm + Cm.T))
        B0 = vk.variance(r0, L0)
        ctx.metric("min_eig/(-n eps64 B0)", float(-ev.min() / (n * 2.3e-16 * B0)))
        ctx.check(ev.min() >= -64 * n * 2.3e-16 * B0, "phase_covariance:positive_semidefinite",
                  "covariance matrix of %d points has eigenvalue %.3g (B0 = %.3g)" % (n, ev.min(), B0), {"n": n, "kind": kind, "L0": L0, "r0": r0})
