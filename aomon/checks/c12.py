"""C12 -- Zernike indexing, modes, normalisations and gradient matrices."""
import math
from fractions import Fraction

import numpy as np
from scipy import special

from aomon.core import pure_call

LEVEL = "exploration"
TECHNIQUE = "reference-model monitors on the real functions: enumerated Noll order, Jacobi-polynomial / exact-rational radial functions, finite-difference and analytic gradients"
LEVEL_TEXT = ("zernIndex is compared with Noll's rule enumerated from the definition for every j up to 2*10^5 (exhaustive to that bound) and at "
              "2^k, 2^k +- 1, triangular numbers +- 1 up to 10^12 using integer arithmetic; generated modes are compared pixel by pixel with an "
              "independent evaluation (Jacobi polynomials, cross-checked against exact rational coefficients) for every grid size 8..65 and "
              "128/256, odd and even, to radial order 20-26; Gram matrices, rms / p2v normalisations, list-vs-count (with rotation), linear "
              "combination, and the gamma matrices against 4th-order finite differences of the generated modes and the analytic gradient. "
              "Normalisation tags are passed as run-time-built strings and numpy.str_ (selected by value, not identity). "
              "Exploration beyond the enumerated index range.")
LEVEL_NOTE = "Trusted: scipy.special.eval_jacobi (cross-checked in-run against exact rational radial polynomials), NumPy. The meaning of `rot` is not judged, only its consistent use."
# normalisation tags as a caller gets them from a configuration file, argv or an array: equal to the literals, but distinct objects
# (string *values* select the normalisation, not object identity)
RT_NOLL, RT_RMS, RT_P2V = "".join(("no", "ll")), "".join(("r", "ms")), "".join(("p", "2v"))

RULE = "case = (function, j | (n, m), grid size, normalisation, rotation); non-trivial for j >= 2; distinct by parameters"
ASSUMPTIONS = ["pixel centres at ((i + 1/2) - N/2)/(N/2); x along axis 1; theta = atan2(y, x)", "Gram bound 8 (n_max + 1)/N from the one-pixel edge ring"]
REQUIRED = ["zernike.py:zernIndex", "zernike.py:zernike_nm", "zernike.py:zernike_noll", "zernike.py:zernikeArray",
            "zernike.py:phaseFromZernikes", "zernike.py:makegammas"]
REQUIRED_COUNTERS = ["noll_indices_checked", "mode_pixels_compared", "gamma_entries_checked_fd", "gamma_points_checked_analytic"]
EXHAUSTIVE = False


def plan(tier, seed):
    jmax = 200000 if tier == "quick" else 20000000
    return [{"shard": i, "n_shards": 16, "jmax": jmax, "nzrad": 5 if tier == "quick" else 8,
             "reps": 1 if tier == "quick" else 16} for i in range(16)]


def noll_enumerate(jmax):
    """(n, m) for j = 1..jmax straight from Noll's ordering rule."""
    out = []
    n = 0
    j = 1
    while j <= jmax:
        ms = list(range(n % 2, n + 1, 2))
        for am in ms:
            if am == 0:
                out.append((n, 0))
                j += 1
            else:
                for _ in range(2):
                    out.append((n, am if j % 2 == 0 else -am))
                    j += 1
        n += 1
    return out[:jmax]


def noll_direct(j):
    """Integer-arithmetic Noll rule for a single (possibly huge) j."""
    n = (math.isqrt(8 * (j - 1) + 1) - 1) // 2
    p = j - n * (n + 1) // 2          # 1 .. n+1 : position inside the radial order
    am = 2 * ((p + (n % 2)) // 2) - (n % 2) if n % 2 else 2 * (p // 2)
    if am == 0:
        return n, 0
    return n, (am if j % 2 == 0 else -am)


def radial_exact(n, m, r):
    m = abs(m)
    out = np.zeros_like(r)
    for k in range((n - m) // 2 + 1):
        c = Fraction((-1) ** k * math.factorial(n - k),
                     math.factorial(k) * math.factorial((n + m) // 2 - k) * math.factorial((n - m) // 2 - k))
        out = out + float(c) * r ** (n - 2 * k)
    return out


def radial_jacobi(n, m, r):
    m = abs(m)
    k = (n - m) // 2
    return (-1) ** k * r ** m * special.eval_jacobi(k, m, 0, 1 - 2 * r * r)


def radial_jacobi_dr(n, m, r):
    """d/dr of R_n^m via the Jacobi derivative identity."""
    m = abs(m)
    k = (n - m) // 2
    x = 1 - 2 * r * r
    P = special.eval_jacobi(k, m, 0, x)
    dP = 0.5 * (k + m + 1) * special.eval_jacobi(k - 1, m + 1, 1, x) if k >= 1 else np.zeros_like(r)
    with np.errstate(all="ignore"):
        t1 = m * r ** (m - 1) * P if m >= 1 else np.zeros_like(r)
    return (-1) ** k * (t1 + r ** m * dP * (-4 * r))


def mode_ref(n, m, X, Y):
    R = np.sqrt(X * X + Y * Y)
    th = np.arctan2(Y, X)
    if m == 0:
        return np.sqrt(n + 1) * radial_jacobi(n, 0, R)
    if m > 0:
        return np.sqrt(2 * (n + 1)) * radial_jacobi(n, m, R) * np.cos(m * th)
    return np.sqrt(2 * (n + 1)) * radial_jacobi(n, -m, R) * np.sin(-m * th)


def mode_grad_ref(n, m, X, Y):
    R = np.sqrt(X * X + Y * Y)
    th = np.arctan2(Y, X)
    am = abs(m)
    norm = np.sqrt(n + 1) if m == 0 else np.sqrt(2 * (n + 1))
    Rr = radial_jacobi(n, am, R)
    dR = radial_jacobi_dr(n, am, R)
    if m == 0:
        A, dA = np.ones_like(th), np.zeros_like(th)
    elif m > 0:
        A, dA = np.cos(am * th), -am * np.sin(am * th)
    else:
        A, dA = np.sin(am * th), am * np.cos(am * th)
    dZdr = norm * dR * A
    dZdt = norm * Rr * dA
    return (np.cos(th) * dZdr - np.sin(th) / R * dZdt, np.sin(th) * dZdr + np.cos(th) / R * dZdt)


def check_index(ctx, Z, spec):
    jmax, ns, sh = spec["jmax"], spec["n_shards"], spec["shard"]
    table = noll_enumerate(min(jmax, 20000))
    # the enumeration and the closed integer rule must agree before either is used as an oracle
    for j in range(1, len(table) + 1):
        if noll_direct(j) != table[j - 1]:
            raise RuntimeError("oracle self-check failed at j=%d: %s vs %s" % (j, noll_direct(j), table[j - 1]))
    lo = 1 + (jmax * sh) // ns
    hi = (jmax * (sh + 1)) // ns
    bad = 0
    seen = set()
    for j in range(lo, hi + 1):
        got = Z.zernIndex(j)
        want = noll_direct(j)
        ctx.count("noll_indices_checked")
        if tuple(int(v) for v in got) != want:
            bad += 1
            if bad <= 3:
                ctx.fail("zernIndex:noll_rule", "zernIndex(%d) = %s, Noll rule gives %s" % (j, list(got), list(want)), {"j": j})
        seen.add(tuple(int(v) for v in got))
    ctx.count("oracle_evals", hi - lo + 1)
    ctx.case("zernIndex_range", key=(lo, hi), nontrivial=True, sample={"j_from": lo, "j_to": hi, "exhaustive_in_range": True})
    ctx.check(len(seen) == hi - lo + 1, "zernIndex:injective", "indices %d..%d map to only %d distinct (n, m)" % (lo, hi, len(seen)), None)
    for (n, m) in list(seen)[:5000]:
        if not (n >= 0 and abs(m) <= n and (n - abs(m)) % 2 == 0):
            ctx.fail("zernIndex:range", "(n, m) = (%d, %d) outside {n >= 0, |m| <= n, n - |m| even}" % (n, m), None)
            break
    # far indices: powers of two and triangular numbers +- 1 (float sqrt rounding)
    if sh == 0:
        big = set()
        for k in range(18, 41):
            big.update([2 ** k - 1, 2 ** k, 2 ** k + 1])
        for n in [10 ** e for e in range(3, 7)] + [123457, 999983, 1414213]:
            t = n * (n + 1) // 2
            big.update([t - 1, t, t + 1, t + 2])
        for j in sorted(big):
            got = tuple(int(v) for v in Z.zernIndex(j))
            ctx.count("noll_indices_checked")
            ctx.check(got == noll_direct(j), "zernIndex:noll_rule:large_j", "zernIndex(%d) = %s, Noll rule gives %s" % (j, got, noll_direct(j)), {"j": j})
        ctx.case("zernIndex_large", key="large", nontrivial=True, sample={"largest_j": max(big)})


def grid(N):
    c = (np.arange(N) - N / 2.0 + 0.5) / (N / 2.0)
    return np.meshgrid(c, c)


def check_modes(ctx, Z, aotools, N, rng, jcount):
    X, Y = grid(N)
    R2 = X * X + Y * Y
    inside = R2 <= 1.0
    par = "odd" if N % 2 else "even"
    # oracle cross-check (Jacobi vs exact rational) on this grid for a few orders
    for (n, m) in ((4, 2), (7, 3), (10, 0)):
        r = np.sqrt(R2[inside])
        if np.abs(radial_jacobi(n, m, r) - radial_exact(n, m, r)).max() > 1e-9:
            raise RuntimeError("radial oracle routes disagree for (n,m)=(%d,%d)" % (n, m))
    A = pure_call(ctx, "zernikeArray", Z.zernikeArray, jcount, N)
    wit0 = {"N": N, "J": jcount}
    if not ctx.check(np.shape(A) == (jcount, N, N), "zernikeArray:shape", "shape %s" % (np.shape(A),), wit0):
        return
    nmax = 0
    for j in range(1, jcount + 1):
        n, m = noll_direct(j)
        nmax = max(nmax, n)
        ref = mode_ref(n, m, X, Y) * inside
        ctx.count("mode_pixels_compared", N * N)
        wit = {"N": N, "j": j, "n": n, "m": m}
        ctx.case("mode_values", key=(N, j), nontrivial=j >= 2, sample=wit if j == 5 else None)
        ctx.check(bool(np.all(A[j - 1][~inside] == 0)), "mode:nonzero_outside_pupil", "mode j=%d is non-zero outside the inscribed pupil" % j, wit)
        sc = np.sqrt(2 * (n + 1))
        ctx.close("mode_vs_reference", A[j - 1], ref, 1e-9 * sc * (n + 1) ** 2, "mode:values:%s" % par, wit, scale=sc)
        if j in (2, 3, 7, 11) or j == jcount:
            single = pure_call(ctx, "zernike_nm", Z.zernike_nm, n, m, N)
            ctx.check(np.array_equal(single, A[j - 1]), "zernike_nm_vs_array", "zernike_nm(%d,%d) differs from zernikeArray slice j=%d" % (n, m, j), wit)
            ctx.check(np.array_equal(Z.zernike_noll(j, N), A[j - 1]), "zernike_noll_vs_array", "zernike_noll(%d) differs from the array slice" % j, wit)
    # Gram matrix -> identity
    area = np.pi * (N / 2.0) ** 2
    G = np.einsum("aij,bij->ab", A, A) / area
    gerr = float(np.abs(G - np.eye(jcount)).max())
    ctx.metric("gram_err*N/(n_max+1)", gerr * N / (nmax + 1))
    ctx.check(gerr <= 8.0 * (nmax + 1) / N, "gram:bound", "max |G - I| = %.4f > 8 (n_max+1)/N = %.4f" % (gerr, 8.0 * (nmax + 1) / N), wit0)
    # other normalisations
    Arms = Z.zernikeArray(jcount, N, norm=RT_RMS)
    npix = aotools.circle(N / 2.0, N).sum()
    rms = np.sqrt((Arms ** 2).sum((1, 2)) / npix)
    ctx.close("rms_normalisation", rms, np.ones(jcount), 1e-12, "norm:rms", wit0)
    Ap2v = Z.zernikeArray(jcount, N, norm=np.str_(RT_P2V))
    ctx.close("p2v_normalisation", Ap2v.max((1, 2)) - Ap2v.min((1, 2)), np.ones(jcount), 1e-12, "norm:p2v", wit0)
    for k in range(jcount):  # both are rescalings of the Noll modes
        if np.abs(A[k]).max() > 0:
            i = np.unravel_index(np.argmax(np.abs(A[k])), A[k].shape)
            ctx.close("rms_is_rescaling", Arms[k] * (A[k][i] / Arms[k][i]), A[k], 1e-10 * np.abs(A[k]).max(), "norm:rms_shape", wit0)
            ctx.close("p2v_is_rescaling", Ap2v[k] * (A[k][i] / Ap2v[k][i]), A[k], 1e-10 * np.abs(A[k]).max(), "norm:p2v_shape", wit0)
    # the count form rounds its arguments: a size given as a float (32.4, 31.6) is the grid of the rounded size, in every normalisation
    Nf = N + float(rng.uniform(0.03, 0.45)) * float(rng.choice([-1, 1]))
    jc = min(jcount, 12)
    for norm, base in (("noll", A), ("rms", Arms), ("p2v", Ap2v)):
        got = Z.zernikeArray(jc + float(rng.uniform(-0.4, 0.4)), Nf, norm)
        ctx.count("float_size_checks")
        if ctx.check(np.shape(got) == (jc, N, N), "zernikeArray:float_size:shape", "zernikeArray(%d, %r, %r) has shape %s" % (jc, Nf, norm, np.shape(got)), dict(wit0, N_given=Nf, norm=norm)):
            ctx.close("float_size_equals_rounded_size", got, base[:jc], 1e-13 * float(np.abs(base[:jc]).max()), "zernikeArray:float_size:" + norm, dict(wit0, N_given=Nf, norm=norm))
    return gerr, nmax


def check_rotated_gram(ctx, Z, N, rng):
    """A rotated basis is still orthonormal (whatever `rot` means exactly): same bound as the unrotated Gram matrix."""
    J = int(rng.integers(6, 37))
    rot = float(rng.uniform(0.2, 2.9) * rng.choice([-1, 1]))
    A = Z.zernikeArray(J, N, rot=rot)
    nmax = max(noll_direct(j)[0] for j in range(1, J + 1))
    G = np.einsum("aij,bij->ab", A, A) / (np.pi * (N / 2.0) ** 2)
    gerr = float(np.abs(G - np.eye(J)).max())
    ctx.case("gram_rotated", key=(N, J, rot), nontrivial=True, sample={"N": N, "J": J, "rot": rot, "max|G-I|": gerr})
    ctx.metric("gram_rotated_err*N/(n_max+1)", gerr * N / (nmax + 1))
    ctx.check(gerr <= 8.0 * (nmax + 1) / N, "gram:bound:rotated", "rotated basis: max |G - I| = %.4f > 8 (n_max+1)/N = %.4f" % (gerr, 8.0 * (nmax + 1) / N),
              {"N": N, "J": J, "rot": rot})


def check_list_and_combination(ctx, Z, N, rng):
    J = int(rng.integers(3, 40))
    for norm in (RT_NOLL, RT_RMS, RT_P2V, "rms", "p2v"):
        rot = float([0.0, rng.uniform(-3, 3)][int(rng.integers(0, 2))])
        idx = sorted(set(int(v) for v in rng.integers(1, J + 1, int(rng.integers(1, 8)))))
        if rng.random() < 0.5:
            idx = idx[::-1]
        if rng.random() < 0.5:
            # an index may appear more than once in the list (a mode used twice): every occurrence is that slice
            idx = idx + [idx[int(rng.integers(0, len(idx)))] for _ in range(int(rng.integers(1, 4)))]
            idx = [idx[i] for i in rng.permutation(len(idx))]
        wit = {"N": N, "J": J, "list": idx, "norm": norm, "rot": rot}
        full = Z.zernikeArray(J, N, norm=norm, rot=rot)
        ctx.case("list_vs_count", key=(N, J, tuple(idx), norm, rot), nontrivial=True, sample=wit)
        lit = {"noll": "noll", "rms": "rms", "p2v": "p2v"}[str(norm)]
        ctx.check(np.array_equal(full, Z.zernikeArray(J, N, norm=lit, rot=rot)), "zernikeArray:norm_tag_by_value",
                  "an equal normalisation string that is another object selects another normalisation", wit)
        ph_tag = Z.phaseFromZernikes(np.arange(1.0, J + 1), N, norm=norm, rot=rot)
        ctx.check(np.array_equal(ph_tag, Z.phaseFromZernikes(np.arange(1.0, J + 1), N, norm=lit, rot=rot)), "phaseFromZernikes:norm_tag_by_value",
                  "an equal normalisation string that is another object selects another normalisation", wit)
        for form in (idx, np.array(idx), tuple(idx)):
            sub = pure_call(ctx, "zernikeArray", Z.zernikeArray, form, N, norm, rot)
            ok = np.shape(sub) == (len(idx), N, N) and np.array_equal(sub, full[np.array(idx) - 1])
            ctx.check(ok, "zernikeArray:list_vs_count:" + ("rot" if rot else "norot"), "array built from list %s differs from slices of the count-built array" % (idx,), wit)
        coeffs = [rng.standard_normal(J), np.where(rng.random(J) < 0.2, rng.standard_normal(J), 0), rng.standard_normal(J) * 1e6,
                  rng.standard_normal(J) * 1e-9, np.where(rng.random(J) < 0.5, 1.0, 1e-9) * rng.standard_normal(J)][int(rng.integers(0, 5))]
        ph = pure_call(ctx, "phaseFromZernikes", Z.phaseFromZernikes, coeffs, N, norm, rot)
        want = np.tensordot(coeffs, full, axes=1)
        sc = float(np.abs(coeffs).max() * np.abs(full).max()) + 1e-300
        small = np.abs(coeffs) < 1e-6 * np.abs(coeffs).max()
        if small.any() and (~small).any():      # the small terms must be present too: judge them on their own scale
            ph_small = Z.phaseFromZernikes(np.where(small, coeffs, 0.0), N, norm=norm, rot=rot)
            want_small = np.tensordot(np.where(small, coeffs, 0.0), full, axes=1)
            scs = float(np.abs(coeffs[small]).max() * np.abs(full).max()) + 1e-300
            ctx.close("phase_small_terms", ph_small, want_small, 1e-12 * scs * J, "phaseFromZernikes:linear_combination:small_coefficients", wit, scale=scs)
        ctx.case("phaseFromZernikes", key=(N, J, norm, rot, float(coeffs[0])), nontrivial=True)
        ctx.close("phase_is_linear_combination", ph, want, 1e-12 * sc * J, "phaseFromZernikes:linear_combination:" + ("rot" if rot else "norot"), wit, scale=sc)
        ph_l = Z.phaseFromZernikes(list(coeffs), N, norm=norm, rot=rot)
        ctx.check(np.array_equal(ph_l, ph), "phaseFromZernikes:list_vs_array", "list and ndarray coefficients give different phases", wit)


def check_gammas(ctx, Z, nzrad, rng):
    gam = pure_call(ctx, "makegammas", Z.makegammas, nzrad)
    nz = (nzrad + 1) * (nzrad + 2) // 2
    wit = {"nzrad": nzrad}
    ctx.case("makegammas", key=nzrad, nontrivial=True, sample=wit)
    if not ctx.check(np.shape(gam) == (2, nz, nz), "makegammas:shape", "shape %s, expected (2,%d,%d)" % (np.shape(gam), nz, nz), wit):
        return
    gx, gy = gam[0].astype(np.float64), gam[1].astype(np.float64)
    # (a) analytic gradient at random interior points
    npts = 400
    r = np.sqrt(rng.uniform(0.01, 0.98, npts))
    t = rng.uniform(-np.pi, np.pi, npts)
    X, Y = r * np.cos(t), r * np.sin(t)
    modes = np.array([mode_ref(*noll_direct(j), X, Y) for j in range(1, nz + 1)])
    for j in range(1, nz + 1):
        n, m = noll_direct(j)
        dx, dy = mode_grad_ref(n, m, X, Y)
        sc = np.sqrt(2 * (n + 1)) * (n + 1) ** 2
        ctx.count("gamma_points_checked_analytic", 2 * npts)
        ctx.close("gamma_x_analytic", gx[j - 1] @ modes, dx, 2e-5 * sc, "gamma:x_gradient", dict(wit, j=j), scale=sc)
        ctx.close("gamma_y_analytic", gy[j - 1] @ modes, dy, 2e-5 * sc, "gamma:y_gradient", dict(wit, j=j), scale=sc)
    # (b) finite differences of the modes the package actually generates
    N = 256
    A = Z.zernikeArray(nz, N)
    h = 2.0 / N
    Xg, Yg = grid(N)
    interior = (Xg * Xg + Yg * Yg) <= (1 - 8 * h) ** 2
    core = interior[4:-4, 4:-4]
    for j in range(1, nz + 1):
        n, m = noll_direct(j)
        Zj = A[j - 1]
        ddx = (-Zj[:, 4:] + 8 * Zj[:, 3:-1] - 8 * Zj[:, 1:-3] + Zj[:, :-4]) / (12 * h)   # d/d(axis 1) = d/dx
        ddy = (-Zj[4:, :] + 8 * Zj[3:-1, :] - 8 * Zj[1:-3, :] + Zj[:-4, :]) / (12 * h)
        ddx = ddx[2:-2, :][2:-2, 2:-2][:, :]  # align to [4:-4, 4:-4]
        ddy = ddy[:, 2:-2][2:-2, 2:-2]
        px = np.tensordot(gx[j - 1], A, axes=1)[4:-4, 4:-4]
        py = np.tensordot(gy[j - 1], A, axes=1)[4:-4, 4:-4]
        sc = np.sqrt(2 * (n + 1)) * (n + 1) ** 2
        ctx.count("gamma_entries_checked_fd", int(core.sum()) * 2)
        ex = float(np.abs((px - ddx[: px.shape[0], : px.shape[1]])[core]).max())
        ey = float(np.abs((py - ddy[: py.shape[0], : py.shape[1]])[core]).max())
        ctx.metric("gamma_fd_err/scale", max(ex, ey) / sc)
        ctx.count("oracle_evals", 2)
        if ex > 5e-3 * sc:
            ctx.fail("gamma:x_gradient:finite_difference", "mode j=%d: |sum gamma_x Z - dZ/dx| = %.3g (scale %.3g)" % (j, ex, sc), dict(wit, j=j))
        if ey > 5e-3 * sc:
            ctx.fail("gamma:y_gradient:finite_difference", "mode j=%d: |sum gamma_y Z - dZ/dy| = %.3g (scale %.3g)" % (j, ey, sc), dict(wit, j=j))


def run(ctx, spec):
    import aotools
    from aotools.functions import zernike as Z
    rng = ctx.rng
    for nme in ("zernIndex", "zernike_nm", "zernike_noll", "zernikeArray", "phaseFromZernikes", "makegammas"):
        pass
    check_index(ctx, Z, spec)
    sizes = [N for N in list(range(8, 66)) + [128, 256] if N % spec["n_shards"] == spec["shard"]]
    for rep in range(spec["reps"]):
        for N in sizes:
            # radial orders up to 20 (231 modes), 23 (300) and 26 (378 modes) on the large grids
            jcount = {64: 300, 128: 378, 256: 231}.get(N, 231) if (N >= 64 and spec["shard"] % 4 == 0 and rep == 0) else int(rng.integers(6, 67))
            check_modes(ctx, Z, aotools, N, rng, jcount)
            check_list_and_combination(ctx, Z, N, rng)
            if N >= 48:
                check_rotated_gram(ctx, Z, N, rng)
    # Gram ladder: the error decreases as the grid is refined
    if spec["shard"] == 1:
        errs = []
        for N in (64, 128, 256):
            A = Z.zernikeArray(28, N)
            G = np.einsum("aij,bij->ab", A, A) / (np.pi * (N / 2.0) ** 2)
            errs.append(float(np.abs(G - np.eye(28)).max()))
        ctx.case("gram_ladder", key="ladder", nontrivial=True, sample={"N": [64, 128, 256], "max|G-I|": errs})
        ctx.check(errs[0] > errs[1] > errs[2], "gram:refinement", "Gram error does not decrease with refinement: %s" % errs, None)
    if spec["shard"] in (2, 3, 4, 5):
        check_gammas(ctx, Z, [spec["nzrad"], 1, 3, 6][spec["shard"] - 2], rng)
