"""C17 -- atmospheric and photometric conversions are mutually inverse and scale right."""
import numpy as np

from aomon.core import pure_call

LEVEL = "exploration"
TECHNIQUE = "post-condition / relation monitors on the real converters (inverse pairs, composites, scaling laws, axis-vs-loop)"
LEVEL_TEXT = ("Each inverse pair, composite and scaling law is evaluated on the real functions over log-uniform inputs spanning 12 decades, "
              "every band, scalar / 0-d / list / float32 / n-d inputs, every integration axis of rank 1-4 profile stacks, always with "
              "non-default wavelengths; identities must hold to pow() rounding. Wavelengths range from 0.1 nm to kilometres, with deterministic visits on both sides of 1 mm, 1 m and 1 km. Exploration over a continuous domain.")
LEVEL_NOTE = "Trusted: NumPy pow/log10. Published-constant clauses (0.314) are judged to 0.5 %."
RULE = "case = (clause, argument class, values); non-trivial always (inputs are positive reals); distinct by clause and drawn values"
ASSUMPTIONS = ["positive inputs", "alternating +-s slope sequences with an even number of frames have sample variance exactly s^2"]
REQUIRED = ["atmos_conversions.py:" + n for n in (
    "cn2_to_seeing", "seeing_to_cn2", "cn2_to_r0", "r0_to_cn2", "r0_to_seeing", "seeing_to_r0", "coherenceTime",
    "isoplanaticAngle", "rytov_variance", "r0_from_slopes", "slope_variance_from_r0")] + [
    "_astronomy.py:" + n for n in ("photons_per_mag", "photons_per_band", "magnitude_to_flux", "flux_to_magnitude")]
REQUIRED_COUNTERS = ["argument_shadow_checks"]
BANDS = ["U", "B", "V", "R", "I", "J", "H", "K", "g", "r", "i", "z"]
ARCSEC = 180.0 * 3600.0 / np.pi


def plan(tier, seed):
    return [{"shard": i, "reps": 25 if tier == "quick" else 30000} for i in range(16)]


WIDE_LAMBDAS = [0.21, 0.999, 1.0, 1.001, 3.7, 1e-3, 1.0000001e-3, 30.0, 999.0, 1000.0, 1500.0, 0.5, 2.0]


def rel(ctx, name, got, want, tol, mech, wit):
    want = np.asarray(want, dtype=np.float64)
    got = np.asarray(got, dtype=np.float64)
    ctx.close(name, got / want, np.ones_like(want), tol, mech, wit)


def as_class(rng, v, k):
    """Present a positive scalar in one of several argument classes."""
    return [float(v), np.float64(v), np.array(v), np.array([v, v * 1.5]), np.float32(v), [v, 2 * v]][k]


def run(ctx, spec):
    import aotools
    from aotools.turbulence import atmos_conversions as ac
    from aotools.astronomy import _astronomy as ast
    rng = ctx.rng
    T = 2e-13
    for rep in range(spec["reps"]):
        lam = float(10 ** rng.uniform(-7, -4.5))
        # every positive wavelength is in the quantifier: every third repetition leaves the optical band (X-ray ... decametre
        # radio), and a deterministic cycle visits wavelengths on both sides of 'round' values (1 mm, 1 m, 1 km)
        if rep % 3 == 1:
            lam = float(10 ** rng.uniform(-10, 3.5))
        elif rep % 3 == 2 and rep % 2 == 0:
            lam = WIDE_LAMBDAS[(rep // 6) % len(WIDE_LAMBDAS)]
        k = int(rng.integers(0, 6))
        t32 = 1e-5 if k == 4 else T   # float32 argument: single-precision arithmetic
        cn2 = float(10 ** rng.uniform(-16, -10))
        r0 = float(10 ** rng.uniform(-3, 1))
        seeing = float(10 ** rng.uniform(-2, 1.5))
        wit = {"lambda": lam, "arg_class": k, "cn2": cn2, "r0": r0, "seeing": seeing}
        A = lambda v: np.asarray(as_class(rng, v, k), dtype=None) if k != 5 else as_class(rng, v, k)
        # --- inverse pairs, always with a non-default wavelength ---
        ctx.case("inverse_pairs", key=("inv", lam, k, cn2, r0, seeing), sample=wit)
        if k != 5:
            x = A(cn2)
            rel(ctx, "r0_to_cn2(cn2_to_r0)", pure_call(ctx, "r0_to_cn2", ac.r0_to_cn2, pure_call(ctx, "cn2_to_r0", ac.cn2_to_r0, x, lam), lam), x, t32, "cn2_r0:inverse", wit)
            x = A(r0)
            rel(ctx, "cn2_to_r0(r0_to_cn2)", ac.cn2_to_r0(ac.r0_to_cn2(x, lam), lam), x, t32, "r0_cn2:inverse", wit)
            rel(ctx, "seeing_to_r0(r0_to_seeing)", ac.seeing_to_r0(pure_call(ctx, "r0_to_seeing", ac.r0_to_seeing, x, lam), lam), x, t32, "r0_seeing:inverse", wit)
            x = A(seeing)
            rel(ctx, "r0_to_seeing(seeing_to_r0)", ac.r0_to_seeing(pure_call(ctx, "seeing_to_r0", ac.seeing_to_r0, x, lam), lam), x, t32, "seeing_r0:inverse", wit)
            rel(ctx, "cn2_to_seeing(seeing_to_cn2)", ac.cn2_to_seeing(pure_call(ctx, "seeing_to_cn2", ac.seeing_to_cn2, x, lam), lam), x, t32, "seeing_cn2:inverse", wit)
            x = A(cn2)
            rel(ctx, "seeing_to_cn2(cn2_to_seeing)", ac.seeing_to_cn2(pure_call(ctx, "cn2_to_seeing", ac.cn2_to_seeing, x, lam), lam), x, t32, "cn2_seeing:inverse", wit)
            # --- composites ---
            rel(ctx, "cn2_to_seeing==r0_to_seeing.cn2_to_r0", ac.cn2_to_seeing(x, lam), ac.r0_to_seeing(ac.cn2_to_r0(x, lam), lam), t32, "cn2_to_seeing:composite", wit)
            x = A(seeing)
            rel(ctx, "seeing_to_cn2==r0_to_cn2.seeing_to_r0", ac.seeing_to_cn2(x, lam), ac.r0_to_cn2(ac.seeing_to_r0(x, lam), lam), t32, "seeing_to_cn2:composite", wit)
        # default wavelength is 500 nm
        rel(ctx, "default_lambda", ac.cn2_to_seeing(cn2), ac.cn2_to_seeing(cn2, 500e-9), T, "default_wavelength", wit)
        rel(ctx, "default_lambda_inv", ac.seeing_to_cn2(seeing), ac.seeing_to_cn2(seeing, 500e-9), T, "default_wavelength", wit)
        # --- scaling laws ---
        c = float(10 ** rng.uniform(-1, 1))
        ctx.case("scaling", key=("scale", lam, c, cn2))
        rel(ctx, "r0~lambda^(6/5)", ac.cn2_to_r0(cn2, lam * c), ac.cn2_to_r0(cn2, lam) * c ** 1.2, T, "r0:lambda_scaling", wit)
        rel(ctx, "r0~cn2^(-3/5)", ac.cn2_to_r0(cn2 * c, lam), ac.cn2_to_r0(cn2, lam) * c ** -0.6, T, "r0:cn2_scaling", wit)
        rel(ctx, "seeing~lambda^(-1/5)", ac.cn2_to_seeing(cn2, lam * c), ac.cn2_to_seeing(cn2, lam) * c ** -0.2, T, "seeing:lambda_scaling", wit)
        rel(ctx, "seeing~1/r0", ac.r0_to_seeing(r0 * c, lam), ac.r0_to_seeing(r0, lam) / c, T, "seeing:r0_scaling", wit)
        rel(ctx, "seeing=0.98lambda/r0", ac.r0_to_seeing(r0, lam), 0.98 * lam / r0 * ARCSEC, T, "seeing:definition", wit)
        # --- single layer isoplanatic angle / coherence time ---
        h = float(10 ** rng.uniform(2, 4.5))
        v = float(10 ** rng.uniform(-0.5, 2))
        r0l = ac.cn2_to_r0(cn2, lam)
        ctx.case("single_layer", key=("sl", lam, cn2, h, v))
        rel(ctx, "theta0=0.314r0/h", pure_call(ctx, "isoplanaticAngle", ac.isoplanaticAngle, np.array([cn2]), np.array([h]), lam), 0.314 * r0l / h * ARCSEC, 5e-3, "isoplanaticAngle:single_layer", wit)
        rel(ctx, "tau0=0.314r0/v", pure_call(ctx, "coherenceTime", ac.coherenceTime, np.array([cn2]), np.array([v]), lam), 0.314 * r0l / v, 5e-3, "coherenceTime:single_layer", wit)
        rel(ctx, "theta0~lambda^(6/5)", ac.isoplanaticAngle(np.array([cn2, 2 * cn2]), np.array([h, 3 * h]), lam * c),
            ac.isoplanaticAngle(np.array([cn2, 2 * cn2]), np.array([h, 3 * h]), lam) * c ** 1.2, T, "isoplanaticAngle:lambda_scaling", wit)
        # --- stacked profiles: axis argument vs explicit loops (same arrays re-used on purpose) ---
        rank = int(rng.integers(1, 5))
        shape = tuple(int(s) for s in rng.integers(1, 5, rank))
        axis = int(rng.integers(-rank, rank))
        cn2p = 10 ** rng.uniform(-16, -13, shape)
        hp = 10 ** rng.uniform(1, 4.3, shape)
        vp = 10 ** rng.uniform(0, 1.7, shape)
        ctx.case("profile_axis", key=("ax", shape, axis, float(cn2p.flat[0])), sample={"shape": shape, "axis": axis})
        for name, fn, second in (("isoplanaticAngle", ac.isoplanaticAngle, hp), ("coherenceTime", ac.coherenceTime, vp),
                                 ("rytov_variance", ac.rytov_variance, hp)):
            got = pure_call(ctx, name, fn, cn2p, second, lam, axis)
            a_m = np.moveaxis(cn2p, axis, -1).reshape(-1, shape[axis])
            b_m = np.moveaxis(second, axis, -1).reshape(-1, shape[axis])
            want = np.array([pure_call(ctx, name, fn, a_m[i].copy(), b_m[i].copy(), lam) for i in range(a_m.shape[0])])
            want = want.reshape(np.moveaxis(cn2p, axis, -1).shape[:-1])
            rel(ctx, name + ":axis_vs_loop", np.asarray(got).reshape(want.shape), want, T, name + ":axis_vs_loop",
                {"shape": shape, "axis": axis, "lambda": lam})
            if rank >= 1:
                got_d = fn(cn2p, second, lam)
                want_d = fn(cn2p, second, lam, axis=-1)
                rel(ctx, name + ":default_axis", got_d, want_d, T, name + ":default_axis", {"shape": shape})
        # the second profile with fewer / unit dimensions (one wind speed per profile, one altitude table for all profiles, ...):
        # NumPy broadcasting against the trailing axes, whatever the integration axis
        if rank >= 2:
            kdrop = int(rng.integers(1, rank))
            shp2 = tuple(sz if rng.random() < 0.7 else 1 for sz in shape[kdrop:])
            for name, fn, lo, hi in (("isoplanaticAngle", ac.isoplanaticAngle, 1, 4.3), ("coherenceTime", ac.coherenceTime, 0, 1.7), ("rytov_variance", ac.rytov_variance, 1, 4.3)):
                sec = 10 ** rng.uniform(lo, hi, shp2)
                full = np.broadcast_to(sec, shape)
                got = pure_call(ctx, name, fn, cn2p, sec, lam, axis)
                a_m = np.moveaxis(cn2p, axis, -1).reshape(-1, shape[axis])
                b_m = np.moveaxis(full, axis, -1).reshape(-1, shape[axis])
                want = np.array([fn(a_m[i].copy(), b_m[i].copy(), lam) for i in range(a_m.shape[0])]).reshape(np.moveaxis(cn2p, axis, -1).shape[:-1])
                ctx.count("broadcast_axis_cases")
                wb = {"cn2_shape": shape, "second_shape": shp2, "axis": axis, "lambda": lam}
                if ctx.check(np.shape(got) == want.shape, name + ":axis_vs_loop:broadcast_second_argument:shape", "result shape %s, expected %s" % (np.shape(got), want.shape), wb):
                    rel(ctx, name + ":axis_vs_loop_broadcast", np.asarray(got), want, T, name + ":axis_vs_loop:broadcast_second_argument", wb)
        # ragged profiles stacked as masked arrays (padded entries masked, holding a sentinel): the integral over a masked stack is
        # the loop over the unpadded profiles
        nprof, nmax_l = int(rng.integers(2, 5)), int(rng.integers(2, 7))
        lens = [int(rng.integers(1, nmax_l + 1)) for _ in range(nprof)]
        cm = np.ma.masked_all((nprof, nmax_l))
        sm_h, sm_v = np.ma.masked_all((nprof, nmax_l)), np.ma.masked_all((nprof, nmax_l))
        for q, ln in enumerate(lens):
            cm[q, :ln] = 10 ** rng.uniform(-16, -13, ln)
            sm_h[q, :ln] = 10 ** rng.uniform(1, 4.3, ln)
            sm_v[q, :ln] = 10 ** rng.uniform(0, 1.7, ln)
        for arr in (cm, sm_h, sm_v):
            arr.data[arr.mask] = 9999.0                  # what lies under the mask must not matter
        ctx.case("masked_profiles", key=("masked", tuple(lens), float(cm.compressed()[0])), nontrivial=True, sample={"layers_per_profile": lens})
        for name, fn, second in (("isoplanaticAngle", ac.isoplanaticAngle, sm_h), ("coherenceTime", ac.coherenceTime, sm_v), ("rytov_variance", ac.rytov_variance, sm_h)):
            for ax, (a_, b_) in ((-1, (cm, second)), (0, (cm.T, second.T))):
                got = np.ma.filled(fn(a_, b_, lam, ax), np.nan)
                want = np.array([fn(np.asarray(cm[q, :ln]), np.asarray(second[q, :ln]), lam) for q, ln in enumerate(lens)])
                ctx.count("masked_profile_cases")
                rel(ctx, name + ":masked_stack_vs_loop", np.asarray(got, dtype=float), want, T, name + ":axis_vs_loop:masked_array_profiles", {"layers_per_profile": lens, "axis": ax})
        # one Cn2 profile against a stack of wind / altitude profiles (broadcasting), integer-typed altitudes and winds
        nl = int(rng.integers(2, 7))
        c1 = 10 ** rng.uniform(-16, -13, nl)
        stack2 = 10 ** rng.uniform(1, 4.3, (int(rng.integers(2, 5)), nl))
        ctx.case("profile_broadcast", key=("bc", nl, float(c1[0])), nontrivial=True)
        for name, fn in (("isoplanaticAngle", ac.isoplanaticAngle), ("coherenceTime", ac.coherenceTime), ("rytov_variance", ac.rytov_variance)):
            got = pure_call(ctx, name, fn, c1, stack2, lam)
            want = np.array([fn(c1.copy(), row.copy(), lam) for row in stack2])
            rel(ctx, name + ":profile_vs_stack_broadcast", got, want, T, name + ":broadcast_single_profile_with_stack", {"layers": nl, "stack": stack2.shape})
            got2 = fn(np.tile(c1, (stack2.shape[0], 1)), stack2, lam)
            rel(ctx, name + ":tiled", got2, want, T, name + ":axis_vs_loop", {"layers": nl})
        hint = rng.integers(1, 25000, nl)                    # integer-typed altitudes (metres) / wind speeds
        vint = rng.integers(1, 60, nl)
        for name, fn, arr in (("isoplanaticAngle", ac.isoplanaticAngle, hint), ("rytov_variance", ac.rytov_variance, hint), ("coherenceTime", ac.coherenceTime, vint)):
            for dt in (np.int64, np.int32):
                got = pure_call(ctx, name, fn, c1, arr.astype(dt), lam)
                rel(ctx, name + ":integer_dtype", got, fn(c1, arr.astype(np.float64), lam), 1e-10, name + ":integer_typed_profile", {"dtype": str(np.dtype(dt)), "values": arr[:4].tolist()})
        # rytov definition on one layer
        rel(ctx, "rytov", ac.rytov_variance(np.array([cn2]), np.array([h]), lam), 2.25 * (2 * np.pi / lam) ** (7 / 6.) * cn2 * h ** (5 / 6.), T, "rytov:definition", wit)
        # --- slope variance <-> r0 ---
        s = float(10 ** rng.uniform(-8, -5))
        d = float(10 ** rng.uniform(-1.5, 0.5))
        nfr = int(2 * rng.integers(1, 40))
        nsub = int(rng.integers(1, 6))
        slopes = np.tile(np.array([s, -s] * (nfr // 2)), (2, nsub, 1))
        if rng.random() < 0.5:          # static offsets differing between sub-apertures do not change any temporal variance
            slopes = slopes + s * (2.0 ** rng.integers(0, 6, (2, nsub, 1)))
        # a static pointing offset far larger than the jitter (offset / rms up to 1e7) leaves the temporal variance unchanged;
        # the +-s record on an exactly representable offset keeps its deviations exact, so the variance is s^2 to rounding
        big = 0.0
        if rng.random() < 0.5:
            s = float(np.ldexp(float(rng.integers(512, 1024)), int(np.floor(np.log2(s))) - 9))     # a 10-bit mantissa: offset + s is exact
            big = s * float(2.0 ** int(rng.integers(10, 24)))
            slopes = np.tile(np.array([s, -s] * (nfr // 2)), (2, nsub, 1)) + big * rng.integers(1, 4, (2, nsub, 1))
        ctx.case("slopes", key=("sl", s, d, nfr, nsub, lam, big))
        r0e = pure_call(ctx, "r0_from_slopes", ac.r0_from_slopes, slopes, lam, d)
        rel(ctx, "slope_variance_from_r0(r0_from_slopes)", pure_call(ctx, "slope_variance_from_r0", ac.slope_variance_from_r0, r0e, lam, d), s * s, 1e-10, "slopes_r0:inverse", {"s": s, "d": d, "lambda": lam})
        rel(ctx, "r0_from_slopes(slope_variance)", ((0.162 * lam ** 2 * d ** (-1 / 3.)) / ac.slope_variance_from_r0(r0, lam, d)) ** 0.6, r0, T, "r0_slopes:law", wit)
        rel(ctx, "slope_var~r0^(-5/3)", ac.slope_variance_from_r0(r0 * c, lam, d), ac.slope_variance_from_r0(r0, lam, d) * c ** (-5 / 3.), T, "slope_variance:r0_scaling", wit)
        # --- photometry ---
        band = BANDS[(rep + spec["shard"]) % 12]
        mag = float(rng.uniform(-5, 30))
        ctx.case("photometry", key=("ph", band, mag), sample={"band": band, "mag": mag})
        fl = pure_call(ctx, "magnitude_to_flux", ast.magnitude_to_flux, mag, band)
        ctx.close("flux_to_magnitude(magnitude_to_flux)", ast.flux_to_magnitude(fl, band), mag, 1e-10, "mag_flux:inverse:band", {"band": band, "mag": mag})
        flux = float(10 ** rng.uniform(-3, 12))
        rel(ctx, "magnitude_to_flux(flux_to_magnitude)", ast.magnitude_to_flux(ast.flux_to_magnitude(flux, band), band), flux, 1e-10, "flux_mag:inverse:band", {"band": band, "flux": flux})
        rel(ctx, "5mag=x100", ast.magnitude_to_flux(mag - 5, band), 100 * fl, 1e-11, "magnitude:five_mag_is_100", {"band": band})
        if band == "V":
            rel(ctx, "default_band", ast.magnitude_to_flux(mag), fl, T, "default_band", {})
        n = int(rng.integers(2, 12))
        mask = (rng.random((n, n)) < 0.7).astype(float)
        mask[0, 0] = 1
        mkind = int(rng.integers(0, 4))
        if mkind == 1:
            mask = mask * float(rng.choice([0.5, 0.25, 0.9]))         # a partially transmitting pupil (beam splitter)
        elif mkind == 2:
            mask = mask * rng.uniform(0.05, 1.0, (n, n))               # grey edge pixels (anti-aliased / rebinned pupil)
        elif mkind == 3:
            mask = mask.astype(bool)
        px = float(10 ** rng.uniform(-2, 0.5))
        t = float(10 ** rng.uniform(-3, 2))
        pb = pure_call(ctx, "photons_per_band", ast.photons_per_band, mag, mask, px, t, band)
        rel(ctx, "photons_per_band=flux*area*time", pb, fl * t * mask.sum() * px ** 2, 1e-11, "photons_per_band:definition", {"band": band})
        rel(ctx, "photons_per_band~time", ast.photons_per_band(mag, mask, px, 3 * t, band), 3 * pb, 1e-11, "photons_per_band:time", {"band": band})
        rel(ctx, "photons_per_band~area", ast.photons_per_band(mag, mask, 2 * px, t, band), 4 * pb, 1e-11, "photons_per_band:area", {"band": band})
        wb = float(10 ** rng.uniform(0, 3))
        pm = pure_call(ctx, "photons_per_mag", ast.photons_per_mag, mag, mask, px, wb, t)
        rel(ctx, "photons_per_mag~time", ast.photons_per_mag(mag, mask, px, wb, 3 * t), 3 * pm, 1e-11, "photons_per_mag:time", {})
        rel(ctx, "photons_per_mag~area", ast.photons_per_mag(mag, np.ones((2 * n, n)), px, wb, t) * mask.sum(), pm * 2 * n * n, 1e-11, "photons_per_mag:area", {})
        rel(ctx, "photons_per_mag:5mag", ast.photons_per_mag(mag - 5, mask, px, wb, t), 100 * pm, 1e-11, "photons_per_mag:five_mag_is_100", {})
