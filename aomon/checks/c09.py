"""C09 -- scaled Fourier transforms are exact inverse pairs obeying Parseval.

Monitors on the real functions, reached both through aotools.fouriertransform and
through the top-level re-exports (aotools.ft, .ift, .ft2, .ift2, ...): inverse pair,
Parseval, linearity, batch == per-item, a direct O(N^2) DFT with the origin at sample
floor(N/2) written from the definition (no numpy.fft), analytic Gaussian, shift theorem.
"""
import numpy as np

LEVEL = "exploration"
TECHNIQUE = "post-condition / relation monitors on the real transforms vs a direct O(N^2) DFT and closed forms"
LEVEL_TEXT = ("Every length N = 1..33 (odd and even) plus primes / powers of two up to 1024, batch shapes, dtypes and spacings over six "
              "decades are pushed through both export paths; identities are checked to FFT rounding. Spacings given in narrow float types (float16 / float32 scalars up to the end of their range) must give the finite 1-D transforms of their value. Exhaustive in N only up to the "
              "bound; exploration otherwise.")
LEVEL_NOTE = ("Trusted: the O(N^2) reference DFT in this file, NumPy arithmetic. Odd-length round trip of the real variants cannot work "
              "through the present API (no length argument) and is a recorded known finding.")
RULE = ("case = (function family, export path, N, batch shape, dtype, delta); non-trivial when the input is non-constant and N >= 2; "
        "distinct by those parameters")
ASSUMPTIONS = ["frequency spacing delta_f = 1/(N*delta) as in the statement",
               "2-D transforms act on square N x N trailing axes",
               "half-spectrum Parseval weights are discovered by probing with real impulses, no layout presupposed"]
REQUIRED = ["fouriertransform.py:ft", "fouriertransform.py:ift", "fouriertransform.py:ft2", "fouriertransform.py:ift2",
            "fouriertransform.py:rft", "fouriertransform.py:irft", "fouriertransform.py:rft2", "fouriertransform.py:irft2"]
REQUIRED_COUNTERS = ["top_level_alias_calls", "direct_dft_comparisons"]


def plan(tier, seed):
    n = 16
    return [{"shard": i, "n_shards": n, "reps": 1 if tier == "quick" else 120,
             "big": [47, 64, 81, 97, 128, 255, 256] if tier == "quick" else [47, 64, 97, 127, 128, 255, 256, 509, 512, 1000, 1023, 1024]}
            for i in range(n)]


def dft_matrix(N):
    """Centred DFT from the definition: X[k] = sum_n x[n] exp(-2 pi i (k-c)(n-c)/N), c = floor(N/2)."""
    c = N // 2
    k = np.arange(N) - c
    return np.exp(-2j * np.pi * np.outer(k, k) / N)


def eps_of(a):
    a = np.asarray(a)
    if a.dtype in (np.float32, np.complex64):
        return float(np.finfo(np.float32).eps)
    return float(np.finfo(np.float64).eps)


def gen_input(rng, shape, kind):
    if kind == "real":
        return rng.standard_normal(shape)
    if kind == "complex":
        return rng.standard_normal(shape) + 1j * rng.standard_normal(shape)
    if kind == "float32":
        return rng.standard_normal(shape).astype(np.float32)
    if kind == "complex64":
        return (rng.standard_normal(shape) + 1j * rng.standard_normal(shape)).astype(np.complex64)
    if kind == "int":
        return rng.integers(-50, 50, shape)
    raise ValueError(kind)


def check_complex_1d(ctx, ns, path, N, batch, kind, delta, rng):
    ft, ift = ns.ft, ns.ift
    x = gen_input(rng, batch + (N,), kind)
    df = 1.0 / (N * delta)
    wit = {"path": path, "N": N, "batch": list(batch), "dtype": kind, "delta": delta}
    X = ft(x, delta)
    e = eps_of(X)
    lg = np.log2(N) + 1
    mx = float(np.abs(x).max()) + 1e-300
    if not ctx.check(np.shape(X) == x.shape, "ft:shape", "ft shape %s" % (np.shape(X),), wit):
        return
    back = ift(X, df)
    ctx.close("ift(ft(x))", back, x.astype(back.dtype), 64 * e * lg * mx, "ft_ift:inverse_pair:" + ("odd" if N % 2 else "even"), wit, scale=mx)
    fwd = ft(ift(x, df), delta)
    ctx.close("ft(ift(X))", fwd, x.astype(fwd.dtype), 64 * e * lg * mx, "ift_ft:inverse_pair:" + ("odd" if N % 2 else "even"), wit, scale=mx)
    # Parseval
    p_in = float((np.abs(x.astype(np.complex128)) ** 2).sum() * delta)
    p_out = float((np.abs(X.astype(np.complex128)) ** 2).sum() * df)
    ctx.close("parseval_1d", p_out, p_in, 64 * e * lg * max(p_in, 1e-300), "ft:parseval", wit, scale=max(p_in, 1e-300))
    # linearity
    y = gen_input(rng, batch + (N,), kind)
    a, b = 1.7 - 0.3j, -0.6 + 2.1j
    lhs = ft(a * x + b * y, delta)
    rhs = a * ft(x, delta) + b * ft(y, delta)
    sc = (abs(a) * mx + abs(b) * float(np.abs(y).max())) * N * delta
    ctx.close("linearity_1d", lhs, rhs, 64 * e * lg * sc, "ft:linearity", wit, scale=sc)
    # batch == per item
    if batch:
        flat = x.reshape((-1, N))
        per = np.stack([ft(row, delta) for row in flat]).reshape(X.shape)
        ctx.close("batch_vs_item_1d", X, per, 8 * e * lg * mx * N * delta, "ft:batch_vs_item", wit, scale=mx * N * delta)
    # direct DFT from the definition
    if N <= 64:
        ctx.count("direct_dft_comparisons")
        W = dft_matrix(N)
        ref = (x.astype(np.complex128) @ W.T) * delta
        ctx.close("ft_vs_direct_dft", X, ref.astype(X.dtype), 16 * e * N * mx * delta * lg,
                  "ft:direct_dft:" + ("odd" if N % 2 else "even"), wit, scale=mx * delta * N)
        refi = (x.astype(np.complex128) @ np.conj(W).T) / N * (N * df)
        got = ift(x, df)
        ctx.close("ift_vs_direct_idft", got, refi.astype(got.dtype), 16 * e * N * mx * df * lg,
                  "ift:direct_dft:" + ("odd" if N % 2 else "even"), wit, scale=mx * df * N)
    # shift theorem (circular shift by k samples <-> linear phase)
    if N >= 2:
        k = int(rng.integers(1, N))
        f = (np.arange(N) - N // 2) * df
        lhs = ft(np.roll(x, k, axis=-1), delta)
        rhs = X * np.exp(-2j * np.pi * f * k * delta)
        ctx.close("shift_theorem", lhs, rhs.astype(lhs.dtype), 64 * e * lg * mx * N * delta, "ft:shift_theorem", wit, scale=mx * N * delta)


def check_gaussian(ctx, ns, path, N, rng):
    """Centred Gaussian -> analytic Gaussian (origin at sample floor(N/2))."""
    if N < 80:
        return
    delta = float(10 ** rng.uniform(-3, 3))
    # resolved by construction: window N*delta >= 12 a (truncation e^-36pi) and a >= 6.4 delta
    # (aliasing at the band edge e^(-pi a^2/(4 delta^2)) < 1e-13)
    a = delta * N / rng.uniform(12.0, N / 6.4)
    wit = {"path": path, "N": N, "delta": delta, "a": a}
    xs = (np.arange(N) - N // 2) * delta
    g = np.exp(-np.pi * xs ** 2 / a ** 2)
    G = ns.ft(g, delta)
    fs = (np.arange(N) - N // 2) / (N * delta)
    ref = a * np.exp(-np.pi * a ** 2 * fs ** 2)
    ctx.close("gaussian_1d", G, ref.astype(complex), 1e-9 * a, "ft:gaussian_centre:" + ("odd" if N % 2 else "even"), wit, scale=a)
    g2 = np.outer(g, g)
    if N <= 256:
        G2 = ns.ft2(g2, delta)
        ctx.close("gaussian_2d", G2, np.outer(ref, ref).astype(complex), 1e-9 * a * a,
                  "ft2:gaussian_centre:" + ("odd" if N % 2 else "even"), wit, scale=a * a)
        back = ns.ift2(np.outer(ref, ref).astype(complex), 1.0 / (N * delta))
        ctx.close("gaussian_2d_inverse", back, g2.astype(complex), 1e-9, "ift2:gaussian_centre:" + ("odd" if N % 2 else "even"), wit)


def check_complex_2d(ctx, ns, path, N, batch, kind, delta, rng):
    ft2, ift2 = ns.ft2, ns.ift2
    x = gen_input(rng, batch + (N, N), kind)
    df = 1.0 / (N * delta)
    wit = {"path": path, "N": N, "batch": list(batch), "dtype": kind, "delta": delta}
    X = ft2(x, delta)
    e = eps_of(X)
    lg = 2 * (np.log2(N) + 1)
    mx = float(np.abs(x).max()) + 1e-300
    if not ctx.check(np.shape(X) == x.shape, "ft2:shape", "ft2 shape %s" % (np.shape(X),), wit):
        return
    tag = ("odd" if N % 2 else "even") + (":batch" if batch else ":single")
    back = ift2(X, df)
    ctx.close("ift2(ft2(x))", back, x.astype(back.dtype), 64 * e * lg * mx, "ft2_ift2:inverse_pair:" + tag, wit, scale=mx)
    fwd = ft2(ift2(x, df), delta)
    ctx.close("ft2(ift2(X))", fwd, x.astype(fwd.dtype), 64 * e * lg * mx, "ift2_ft2:inverse_pair:" + tag, wit, scale=mx)
    p_in = float((np.abs(x.astype(np.complex128)) ** 2).sum() * delta ** 2)
    p_out = float((np.abs(X.astype(np.complex128)) ** 2).sum() * df ** 2)
    ctx.close("parseval_2d", p_out, p_in, 64 * e * lg * max(p_in, 1e-300), "ft2:parseval", wit, scale=max(p_in, 1e-300))
    pi_out = float((np.abs(ift2(x, df).astype(np.complex128)) ** 2).sum() * delta ** 2)
    pi_in = float((np.abs(x.astype(np.complex128)) ** 2).sum() * df ** 2)
    ctx.close("parseval_2d_inverse", pi_out, pi_in, 64 * e * lg * max(pi_in, 1e-300), "ift2:parseval:" + tag, wit, scale=max(pi_in, 1e-300))
    if batch:
        flat = x.reshape((-1, N, N))
        per = np.stack([ft2(im, delta) for im in flat]).reshape(X.shape)
        ctx.close("batch_vs_item_2d", X, per, 8 * e * lg * mx * (N * delta) ** 2, "ft2:batch_vs_item", wit, scale=mx * (N * delta) ** 2)
        peri = np.stack([ift2(im, df) for im in flat]).reshape(X.shape)
        ctx.close("batch_vs_item_2d_inverse", ift2(x, df), peri, 8 * e * lg * mx * (N * df) ** 2 * N * N, "ift2:batch_vs_item", wit, scale=mx)
    if N <= 32:
        ctx.count("direct_dft_comparisons")
        W = dft_matrix(N)
        ref = np.einsum("ka,...ab,lb->...kl", W, x.astype(np.complex128), W) * delta ** 2
        ctx.close("ft2_vs_direct_dft", X, ref.astype(X.dtype), 16 * e * N * N * mx * delta ** 2 * lg,
                  "ft2:direct_dft:" + ("odd" if N % 2 else "even"), wit, scale=mx * (N * delta) ** 2)
        Wc = np.conj(W)
        refi = np.einsum("ka,...ab,lb->...kl", Wc, x.astype(np.complex128), Wc) * df ** 2
        got = ift2(x, df)
        ctx.close("ift2_vs_direct_idft", got, refi.astype(got.dtype), 16 * e * N * N * mx * df ** 2 * lg,
                  "ift2:direct_dft:" + tag, wit, scale=mx * (N * df) ** 2)
    if N >= 2:
        k1, k2 = int(rng.integers(0, N)), int(rng.integers(1, N))
        f = (np.arange(N) - N // 2) * df
        lhs = ft2(np.roll(x, (k1, k2), axis=(-2, -1)), delta)
        ph = np.exp(-2j * np.pi * delta * (f[:, None] * k1 + f[None, :] * k2))
        ctx.close("shift_theorem_2d", lhs, (X * ph).astype(lhs.dtype), 64 * e * lg * mx * (N * delta) ** 2, "ft2:shift_theorem", wit,
                  scale=mx * (N * delta) ** 2)


def half_weights(fn, N, delta, two_d):
    """Which half-spectrum bins are self-conjugate (weight 1) -- by probing with real impulses."""
    probes = []
    for n in range(N):
        if two_d:
            e = np.zeros((N, N))
            e[0, n] = 1.0
        else:
            e = np.zeros(N)
            e[n] = 1.0
        probes.append(fn(e, delta))
    P = np.array(probes)
    P = P / P[0]  # remove the constant phase of whatever shift convention is in use
    imag_free = np.all(np.abs(P.imag) <= 1e-9, axis=0)
    return np.where(imag_free, 1.0, 2.0)


def check_real(ctx, ns, path, N, batch, delta, rng):
    wit = {"path": path, "N": N, "batch": list(batch), "delta": delta}
    df = 1.0 / (N * delta)
    par = "odd" if N % 2 else "even"
    x = rng.standard_normal(batch + (N,))
    mx = float(np.abs(x).max()) + 1e-300
    e = float(np.finfo(np.float64).eps)
    lg = np.log2(N) + 1
    X = ns.rft(x, delta)
    ctx.check(np.shape(X) == batch + (N // 2 + 1,), "rft:shape", "rft shape %s for N=%d" % (np.shape(X), N), wit)
    w = half_weights(ns.rft, N, delta, False)
    p_in = float((x ** 2).sum() * delta)
    p_out = float((w * np.abs(X) ** 2).sum() * df)
    ctx.close("parseval_rft", p_out, p_in, 64 * e * lg * p_in, "rft:parseval:" + par, wit, scale=p_in)
    try:
        back = ns.irft(X, df)
    except Exception as ex:
        # N = 1 has a one-bin half spectrum; the inverse (which must guess the length) cannot be formed
        ctx.fail("irft:roundtrip_shape:odd" if N % 2 else "irft:raises:even", "irft(rft(x)) raised %r for N=%d" % (ex, N), wit)
        ctx.count("oracle_evals")
        back = None
    if back is None:
        pass
    elif np.shape(back) != x.shape:
        ctx.fail("irft:roundtrip_shape:" + par, "irft(rft(x)) has shape %s, input %s" % (np.shape(back), x.shape), wit)
        ctx.count("oracle_evals")
    else:
        ctx.close("irft(rft(x))", back, x, 64 * e * lg * mx, "irft:inverse_pair:" + par, wit, scale=mx)
    # 2-D
    if N <= 128:
        x2 = rng.standard_normal(batch + (N, N))
        X2 = ns.rft2(x2, delta)
        ctx.check(np.shape(X2) == batch + (N, N // 2 + 1), "rft2:shape", "rft2 shape %s for N=%d" % (np.shape(X2), N), wit)
        if N <= 48:
            w2 = half_weights(ns.rft2, N, delta, True)
            p_in = float((x2 ** 2).sum() * delta ** 2)
            p_out = float((w2 * np.abs(X2) ** 2).sum() * df ** 2)
            ctx.close("parseval_rft2", p_out, p_in, 64 * e * 2 * lg * p_in, "rft2:parseval:" + par, wit, scale=p_in)
        try:
            back2 = ns.irft2(X2, df)
        except Exception as ex:
            ctx.fail("irft2:roundtrip_shape:odd" if N % 2 else "irft2:raises:even", "irft2(rft2(x)) raised %r for N=%d" % (ex, N), wit)
            ctx.count("oracle_evals")
            return
        if np.shape(back2) != x2.shape:
            ctx.fail("irft2:roundtrip_shape:" + par, "irft2(rft2(x)) has shape %s, input %s" % (np.shape(back2), x2.shape), wit)
            ctx.count("oracle_evals")
        else:
            ctx.close("irft2(rft2(x))", back2, x2, 64 * e * 2 * lg * float(np.abs(x2).max()), "irft2:inverse_pair:" + par, wit,
                      scale=float(np.abs(x2).max()))


def check_narrow_integers(ctx, ns, path, N, rng):
    """uint8 / int16 images with a Python-integer spacing: the scaling must not be done in the image's own integer type."""
    for dt in (np.uint8, np.int16, np.int8):
        info = np.iinfo(dt)
        x = rng.integers(max(info.min, -100), min(info.max, 250), (N, N)).astype(dt)
        d = int(rng.choice([2, 3, 7]))
        wit = {"path": path, "N": N, "dtype": str(np.dtype(dt)), "delta": d}
        ctx.case("narrow_integer_image", key=(path, N, str(dt), d), nontrivial=True, sample=wit)
        for nm, f in (("ft2", ns.ft2), ("ift2", ns.ift2), ("ft", ns.ft), ("ift", ns.ift)):
            got = f(x, d)
            want = f(x.astype(np.float64), float(d))
            sc = float(np.abs(want).max()) + 1e-300
            ctx.close(nm + "_integer_image_integer_spacing", got, want.astype(got.dtype), 1e-10 * sc, nm + ":integer_image_integer_spacing", wit, scale=sc)


def check_half_precision(ctx, ns, path, N, rng):
    """float16 samples (camera frames stored compactly) with spacings far from 1: the scaling must not be done in the samples' own type."""
    x = rng.standard_normal((N, N)).astype(np.float16)
    for d in (1e-3, 2.5e-5, 300.0):
        wit = {"path": path, "N": N, "dtype": "float16", "delta": d}
        ctx.case("half_precision_image", key=(path, N, d), nontrivial=True, sample=wit)
        # (forward transforms only: numpy.fft.ifft itself forms its 1/N factor in half precision for float16 input, 2.4e-4 off for N = 7)
        for nm, f, g, arr in (("ft2", ns.ft2, ns.ift2, x), ("ft", ns.ft, ns.ift, x[0])):
            got = f(arr, d)
            want = f(arr.astype(np.float64), d)
            sc = float(np.abs(want).max()) + 1e-300
            ctx.close(nm + "_float16_samples", got, want.astype(got.dtype), 1e-5 * sc, nm + ":half_precision_samples", wit, scale=sc)
            back = g(got, 1.0 / (N * d))
            ctx.close(nm + "_float16_round_trip", back, arr.astype(back.dtype), 1e-4 * float(np.abs(arr).max()), nm + ":half_precision_samples:round_trip", wit)


def check_structured_spectra(ctx, ns, path, N, rng):
    """Spectra with exact symmetries (bitwise Hermitian about the centre sample, with a complex sample at -Nyquist for even N;
    purely real; purely imaginary; exactly anti-Hermitian): the inverse transforms are still the exact inverse of the forward ones."""
    c = N // 2                                            # centre (zero-frequency) sample
    for cls in ("hermitian_complex_nyquist", "anti_hermitian", "real", "imaginary"):
        X = rng.standard_normal(N) + 1j * rng.standard_normal(N)
        for k in range(1, N - c):
            if c - k >= 0:
                X[c + k] = np.conj(X[c - k]) if cls == "hermitian_complex_nyquist" else (-np.conj(X[c - k]) if cls == "anti_hermitian" else X[c + k])
        if cls == "hermitian_complex_nyquist":
            X[c] = X[c].real                              # DC real; for even N sample 0 (-Nyquist) has no partner and stays complex
        elif cls == "anti_hermitian":
            X[c] = 1j * X[c].imag
        elif cls == "real":
            X = X.real + 0j
        elif cls == "imaginary":
            X = 1j * X.imag
        d = float(10 ** rng.uniform(-2, 2))
        wit = {"path": path, "N": N, "spectrum_class": cls, "delta_f": d}
        ctx.case("structured_spectrum", key=(path, N, cls), nontrivial=True, sample=wit)
        sc = float(np.abs(X).max())
        x = ns.ift(X, d)
        back = ns.ft(x, 1.0 / (N * d))
        ctx.close("ft_ift_structured_spectrum", back, X, 1e-12 * sc * N, "ift:inverse_pair:spectrum_with_exact_symmetry", wit, scale=sc)
        X2 = np.outer(X, np.conj(X[::-1]) if cls == "hermitian_complex_nyquist" else X)
        x2 = ns.ift2(X2, d)
        back2 = ns.ft2(x2, 1.0 / (N * d))
        sc2 = float(np.abs(X2).max())
        ctx.close("ft2_ift2_structured_spectrum", back2, X2, 1e-12 * sc2 * N * N, "ift2:inverse_pair:spectrum_with_exact_symmetry", wit, scale=sc2)
        # linearity across the symmetry class boundary
        Y = rng.standard_normal(N) + 1j * rng.standard_normal(N)
        ctx.close("ift_linearity_structured", ns.ift(X + Y, d), x + ns.ift(Y, d), 1e-12 * (sc + float(np.abs(Y).max())) * d * N, "ift:linearity:spectrum_with_exact_symmetry", wit)


def check_spacing_objects(ctx, ns, path, N, rng):
    """The spacings handed over as 0-d / 1-element arrays and used for several calls: every call is the same inverse pair."""
    for mk, nmk in ((lambda v: np.asarray(v), "0d_array"), (lambda v: np.array([v]), "1_element_array"), (lambda v: np.float32(v), "float32_scalar")):
        d = float(rng.choice([0.25, 0.5, 2.0]))
        delta, delta_f = mk(d), mk(1.0 / (N * d))
        keep = (np.array(delta, copy=True), np.array(delta_f, copy=True))
        wit = {"path": path, "N": N, "spacing_as": nmk, "delta": d}
        ctx.case("spacing_object", key=(path, N, nmk, d), nontrivial=True, sample=wit)
        tolr = 1e-5 if nmk == "float32_scalar" else 1e-11
        for nm, f, g, shape in (("ft2", ns.ft2, ns.ift2, (N, N)), ("ft", ns.ft, ns.ift, (N,))):
            x = rng.standard_normal(shape) + 1j * rng.standard_normal(shape)
            for call in range(3):
                back = g(f(x, delta), delta_f)
                ctx.close(nm + "_inverse_pair_spacing_object", np.asarray(back).reshape(shape), x, tolr * float(np.abs(x).max()) * N,
                          nm + ":inverse_pair:spacing_object_reused", dict(wit, call=call))
            ctx.check(np.array_equal(np.asarray(delta), keep[0]) and np.array_equal(np.asarray(delta_f), keep[1]), nm + ":spacing_argument_modified",
                      "the spacing passed as %s was changed by the call" % nmk, wit)

    # a spacing stored in a narrow float type has the value it has: the 1-D transforms with it are the transforms with that value, to the
    # rounding of the spacing's own type -- in particular finite when N * delta_f leaves the narrow type's range (float16: 65504)
    if N >= 2:
        X = rng.standard_normal(N) + 1j * rng.standard_normal(N)
        for dt, vals in ((np.float16, (60000.0, 1000.0, 0.3, 6e-5)), (np.float32, (3e38, 0.3, 1e-38))):
            for v in vals:
                sp = dt(v)
                wit = {"path": path, "N": N, "spacing_as": dt.__name__ + "_scalar", "value": float(sp)}
                ctx.case("narrow_spacing", key=(path, N, dt.__name__, v), nontrivial=True, sample=wit)
                for nm, f in (("ft", ns.ft), ("ift", ns.ift)):
                    with np.errstate(all="ignore"):
                        got, want = np.asarray(f(X, sp)), np.asarray(f(X, float(sp)))
                    if not np.isfinite(want).all():
                        continue
                    sc = float(np.abs(want).max())
                    if ctx.check(bool(np.isfinite(got).all()), nm + ":narrow_spacing_type:nonfinite",
                                 "%s(x, %s(%g)) is not finite although the transform with that spacing is" % (nm, dt.__name__, v), wit):
                        ctx.close(nm + "_narrow_spacing", got, want.astype(got.dtype), 8 * float(np.finfo(dt).eps) * sc, nm + ":narrow_spacing_type:value", wit, scale=sc)


def check_deep_stack(ctx, ns, path, rng):
    """More than 2^20 samples in one stack, frame count not a power of two: every frame is transformed."""
    k, n = int(rng.choice([1500, 1100])), 32
    x = rng.standard_normal((k, n, n))
    wit = {"path": path, "frames": k, "N": n}
    ctx.case("deep_stack", key=(path, k), nontrivial=True, sample=wit)
    for nm, f, g in (("ft2", ns.ft2, ns.ift2), ("ift2", ns.ift2, ns.ft2), ("ft", ns.ft, ns.ift), ("ift", ns.ift, ns.ft)):
        X = f(x, 0.25)
        last = f(x[-1], 0.25)
        mid = f(x[k // 2 + 1], 0.25)
        sc = float(np.abs(last).max())
        ctx.close(nm + "_deep_stack_last_frame", X[-1], last, 1e-11 * sc, nm + ":deep_stack_item", wit, scale=sc)
        ctx.close(nm + "_deep_stack_middle_frame", X[k // 2 + 1], mid, 1e-11 * sc, nm + ":deep_stack_item", wit, scale=sc)
        back = g(X, 1.0 / (n * 0.25))
        ctx.close(nm + "_deep_stack_round_trip", back, x.astype(back.dtype), 1e-10, nm + ":deep_stack_round_trip", wit)


class NS:
    pass


def run(ctx, spec):
    import aotools
    from aotools import fouriertransform as F
    rng = ctx.rng
    mod_ns, top_ns = NS(), NS()
    for n in ("ft", "ift", "ft2", "ift2", "rft", "irft", "rft2", "irft2"):
        setattr(mod_ns, n, getattr(F, n))
        if not hasattr(aotools, n):
            ctx.fail("export_missing:" + n, "aotools.%s is not exported" % n, None)
            setattr(top_ns, n, getattr(F, n))
        else:
            setattr(top_ns, n, getattr(aotools, n))
    sizes = list(range(1, 34)) + spec["big"]
    mine = [N for i, N in enumerate(sizes) if i % spec["n_shards"] == spec["shard"]]
    batches = [(), (3,), (2, 3), (1, 1, 4)]
    kinds = ["real", "complex", "float32", "complex64", "int"]
    for rep in range(spec["reps"]):
        for N in mine:
            for path, ns in (("module", mod_ns), ("top_level", top_ns)):
                for bi, batch in enumerate(batches):
                    kind = kinds[(bi + N + rep) % len(kinds)]
                    delta = float(10 ** rng.uniform(-3, 3))
                    if path == "top_level":
                        ctx.count("top_level_alias_calls")
                    ctx.case("ft1d", key=(path, N, batch, kind, rep), nontrivial=N >= 2,
                             sample={"path": path, "N": N, "batch": batch, "dtype": kind, "delta": delta})
                    check_complex_1d(ctx, ns, path, N, batch, kind, delta, rng)
                    if N <= 64 or (N <= 256 and not batch):
                        ctx.case("ft2d", key=(path, N, batch, kind, rep), nontrivial=N >= 2)
                        check_complex_2d(ctx, ns, path, N, batch if N <= 33 else (), kind, delta, rng)
                    if bi < 2:
                        ctx.case("real_variants", key=(path, N, batch, rep), nontrivial=N >= 2)
                        check_real(ctx, ns, path, N, batch, delta, rng)
                ctx.case("gaussian", key=(path, N, rep), nontrivial=N >= 80)
                check_gaussian(ctx, ns, path, N, rng)
                if N in (8, 16, 33):
                    check_narrow_integers(ctx, ns, path, N, rng)
                if N in (7, 8, 16, 33) and rep == 0:
                    check_spacing_objects(ctx, ns, path, N, rng)
                    check_half_precision(ctx, ns, path, N, rng)
                if N >= 2 and rep == 0 and (N <= 12 or N in (16, 33, 64)):
                    check_structured_spectra(ctx, ns, path, N, rng)
        if spec["shard"] in (3, 11) and rep == 0:
            check_deep_stack(ctx, mod_ns if spec["shard"] == 3 else top_ns, "module" if spec["shard"] == 3 else "top_level", rng)
