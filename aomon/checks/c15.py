"""C15 -- centroiders locate, shift, scale and batch consistently."""
import numpy as np

from aomon.core import pure_call

LEVEL = "exploration"
TECHNIQUE = "definitional reference monitors (first moments, rank threshold, shifted autocorrelation) + relation monitor (scale / shift / stack groups) on the real centroiders"
LEVEL_TEXT = ("Every centroider is driven with compact non-negative content placed away from the borders of square and non-square frames "
              "(sizes 2..24, float and integer dtypes, stacks of depth 1..8, thresholds in [0,1), paddings 1..4) and judged against "
              "first-moment references and against itself under scaling (bit-exact for powers of two), integer content shifts and "
              "stack-vs-frame processing. Each code path (2-D / N-D) is also pinned to its own reference so that a divergence between "
              "them, which is a recorded known finding, does not hide other faults. Correlation centroids are invariant over the whole float64 range of flux units (correlations of 1e+-160). Exploration over images.")
LEVEL_NOTE = "Trusted: NumPy. Content is compact with zero background so that circular correlation does not wrap."
RULE = "case = (centroider, frame shape, content, threshold / fraction / padding, relation); non-trivial when the content has >= 2 lit pixels; distinct by parameters and content digest"
ASSUMPTIONS = ["centroids are returned as (x, y) = (column, row)", "array centre for the correlation centroid = pixel N // 2 (the zero-lag position after fftshift)",
               "brightest-pixel fractions select at least two pixels and the maximum is unique"]
REQUIRED = ["centroiders.py:centre_of_gravity", "centroiders.py:brightest_pixel", "centroiders.py:correlation_centroid",
            "centroiders.py:quadCell"]
REQUIRED_COUNTERS = ["argument_shadow_checks", "stack_vs_frame_groups", "shift_groups", "scale_groups"]


def plan(tier, seed):
    return [{"shard": i, "reps": 80 if tier == "quick" else 15000} for i in range(16)]


def content(rng, ny, nx, margin, dtype, compact=False):
    """Compact non-negative blob with zero background, >= margin pixels away from every border.
    compact=True additionally keeps the blob smaller than half the frame minus the margin, so that
    its circular autocorrelation does not wrap around."""
    img = np.zeros((ny, nx))
    hmax = ny - 2 * margin
    wmax = nx - 2 * margin
    if compact:
        hmax = min(hmax, ny // 2 - margin)
        wmax = min(wmax, nx // 2 - margin)
    assert hmax >= 1 and wmax >= 1
    h = int(rng.integers(1, hmax + 1))
    w = int(rng.integers(1, wmax + 1))
    y0 = int(rng.integers(margin, ny - margin - h + 1))
    x0 = int(rng.integers(margin, nx - margin - w + 1))
    if np.issubdtype(dtype, np.integer):
        blob = rng.permutation(h * w).reshape(h, w) + 1 + rng.integers(0, 3)
    else:
        blob = rng.random((h, w)) + 0.05
    img[y0:y0 + h, x0:x0 + w] = blob
    return img.astype(dtype)


def cog_ref(img):
    img = np.asarray(img, dtype=np.float64)
    yy, xx = np.indices(img.shape)
    s = img.sum()
    return np.array([(xx * img).sum() / s, (yy * img).sum() / s])


def run(ctx, spec):
    import aotools
    from aotools.image_processing import centroiders as C
    rng = ctx.rng
    for rep in range(spec["reps"]):
        ny = int(rng.integers(8, 25))
        nx = ny if rng.random() < 0.5 else int(rng.integers(8, 25))
        special_frac = rng.random() < 0.3
        if special_frac and rng.random() < 0.6:
            ny, nx = ny | 1, nx | 1            # odd number of pixels
        dtype = [np.float64, np.float32, np.int64, np.int32][int(rng.integers(0, 4))]
        tolr = 2e-5 if dtype == np.float32 else 1e-11
        kmax = 2
        img = content(rng, ny, nx, kmax + 1, dtype)
        lit = int((img > 0).sum())
        wit = {"shape": (ny, nx), "dtype": str(np.dtype(dtype)), "lit_pixels": lit}

        # 1. single bright pixel
        px, py = int(rng.integers(0, nx)), int(rng.integers(0, ny))
        one = np.zeros((ny, nx), dtype=dtype)
        one[py, px] = 7
        ctx.case("single_pixel", key=(ny, nx, px, py, str(dtype)), nontrivial=True, sample={"shape": (ny, nx), "pixel_xy": (px, py)})
        ctx.close("cog_single_pixel", pure_call(ctx, "centre_of_gravity", C.centre_of_gravity, one), np.array([px, py], float), 1e-12, "centre_of_gravity:single_pixel", wit)
        frac = float(rng.uniform(2.0 / (nx * ny), 0.9))
        if special_frac:
            # fractions for which fraction x pixels is an integer or exactly a half-integer (0.5 on odd frames, ...): ties of the rounding
            cands = [0.5, 0.1, 0.3, 0.25, 0.75, 0.2, 0.7, 0.9] + [(2 * int(k) + 1) / (2.0 * nx * ny) for k in rng.integers(2, nx * ny // 2, 6)]
            half = [c for c in cands if (c * nx * ny) % 1.0 == 0.5 and c * nx * ny >= 2]
            frac = float(rng.choice(half)) if half and rng.random() < 0.7 else float(rng.choice(cands[:8]))
            ctx.count("brightest_pixel_fractions_on_a_rounding_tie", int((frac * nx * ny) % 1.0 == 0.5))
        ctx.close("bp_single_pixel", pure_call(ctx, "brightest_pixel", C.brightest_pixel, one, frac), np.array([px, py], float), 1e-12, "brightest_pixel:single_pixel", wit)
        st1 = np.stack([one, np.roll(one, 1, axis=1) if px + 1 < nx else one])
        got = C.centre_of_gravity(st1)
        ctx.close("cog_single_pixel_stack", got[:, 0], np.array([px, py], float), 1e-12, "centre_of_gravity:single_pixel:stack", wit)

        # 2. centre of gravity vs first moments; thresholds; per-path references
        thr = float([0.0, rng.uniform(0.01, 0.95), rng.uniform(0.01, 0.95)][int(rng.integers(0, 3))])
        ctx.case("centre_of_gravity", key=(ny, nx, thr, str(dtype), float(img.sum())), nontrivial=lit >= 2, sample=dict(wit, threshold=thr))
        g2 = pure_call(ctx, "centre_of_gravity", C.centre_of_gravity, img, thr)
        f64 = img.astype(np.float64)
        if thr == 0:
            ref2 = cog_ref(f64)
        else:
            t = thr * f64.max()
            ref2 = cog_ref(np.where(f64 > t, f64 - t, 0))
        # a pixel within rounding (of the image's own precision) of the threshold may legitimately fall on either side: not judged
        e_dt = 8 * float(np.finfo(dtype).eps) if np.issubdtype(dtype, np.floating) else 8 * 2.3e-16
        on_edge = lambda ff_, t_: bool(np.any(np.abs(ff_ - t_) <= e_dt * float(ff_.max())))
        if thr and on_edge(f64, thr * f64.max()):
            ctx.count("threshold_ties_not_judged")
        else:
            ctx.close("cog_2d_vs_reference", g2, ref2, tolr * max(nx, ny), "centre_of_gravity:2d_path_reference", dict(wit, threshold=thr))
        depth = int(rng.integers(1, 9))
        frames = [content(rng, ny, nx, kmax + 1, dtype) * (1 + (i % 3)) for i in range(depth)]
        stack = np.stack(frames).astype(dtype)
        gs = pure_call(ctx, "centre_of_gravity", C.centre_of_gravity, stack, thr)
        refs = []
        for f in frames:
            ff = f.astype(np.float64)
            refs.append(cog_ref(ff if thr == 0 else np.where(ff - thr * ff.max() < 0, 0, ff)))
        tie = bool(thr) and any(on_edge(f.astype(np.float64), thr * float(f.astype(np.float64).max())) for f in frames)
        if tie:
            ctx.count("threshold_ties_not_judged")
        else:
            ctx.close("cog_stack_vs_reference", gs, np.array(refs).T, tolr * max(nx, ny), "centre_of_gravity:nd_path_reference", dict(wit, threshold=thr, depth=depth))
        # an absolute floor (min_threshold) lying between the relative thresholds of frames of different brightness
        if thr > 0 and depth >= 2:
            peaks = sorted(float(f.astype(np.float64).max()) for f in frames)
            mt = min(thr * 0.5 * (peaks[0] + peaks[-1]), 0.8 * peaks[0])      # above the faint frames' relative threshold, below their peak
            gm = pure_call(ctx, "centre_of_gravity", C.centre_of_gravity, stack, thr, mt)
            refm = []
            for f in frames:
                ff = f.astype(np.float64)
                t_ = max(thr * ff.max(), mt)
                refm.append(cog_ref(np.where(ff - t_ < 0, 0, ff)))
            if tie or any(on_edge(f.astype(np.float64), max(thr * float(f.astype(np.float64).max()), mt)) for f in frames):
                ctx.count("threshold_ties_not_judged")
            else:
                ctx.close("cog_stack_min_threshold", gm, np.array(refm).T, tolr * max(nx, ny), "centre_of_gravity:nd_path_reference:min_threshold", dict(wit, threshold=thr, min_threshold=mt, depth=depth))
        ctx.count("stack_vs_frame_groups")
        per = np.array([C.centre_of_gravity(f, thr) for f in frames]).T
        ctx.close("cog_stack_vs_frame", gs, per, tolr * max(nx, ny),
                  "centre_of_gravity:stack_vs_frame:" + ("thresholded" if thr else "no_threshold"), dict(wit, threshold=thr, depth=depth))
        # a frame's answer must not depend on the other frames of the stack
        per1 = np.array([C.centre_of_gravity(f[None], thr)[:, 0] for f in frames]).T
        ctx.close("cog_stack_vs_depth1", gs, per1, tolr * max(nx, ny), "centre_of_gravity:stack_vs_depth1_stack", dict(wit, threshold=thr, depth=depth))

        # 3. scale invariance
        ctx.count("scale_groups")
        c2 = float(2.0 ** int(rng.integers(-6, 7)))
        cr = float(rng.uniform(0.1, 30))
        fimg = img.astype(np.float64)
        base = C.centre_of_gravity(fimg, thr)
        ctx.check(np.array_equal(C.centre_of_gravity(fimg * c2, thr), base), "centre_of_gravity:scale_invariance", "not bit-identical under scaling by %g" % c2, wit)
        ctx.close("cog_scale_random", C.centre_of_gravity(fimg * cr, thr), base, 1e-11 * max(nx, ny), "centre_of_gravity:scale_invariance", wit)
        fst = stack.astype(np.float64)
        ctx.close("cog_scale_stack", C.centre_of_gravity(fst * cr, thr), C.centre_of_gravity(fst, thr), 1e-11 * max(nx, ny), "centre_of_gravity:scale_invariance:stack", wit)
        bbase = C.brightest_pixel(fimg.copy(), frac)
        if np.all(np.isfinite(bbase)):
            ctx.check(np.array_equal(C.brightest_pixel(fimg * c2, frac), bbase), "brightest_pixel:scale_invariance", "not bit-identical under scaling by %g" % c2, wit)
            ctx.close("bp_scale_random", C.brightest_pixel(fimg * cr, frac), bbase, 1e-11 * max(nx, ny), "brightest_pixel:scale_invariance", wit)
        # faint and bright frames (photon rates in any unit): positive factors of any size, the thresholded paths included
        ce = float(10.0 ** int(rng.integers(-40, 41)))
        ctx.close("cog_scale_extreme", C.centre_of_gravity(fimg * ce, thr), base, 1e-11 * max(nx, ny), "centre_of_gravity:scale_invariance:extreme_factor", dict(wit, factor=ce, threshold=thr))
        ctx.close("cog_scale_extreme_stack", C.centre_of_gravity(fst * ce, thr), C.centre_of_gravity(fst, thr), 1e-11 * max(nx, ny),
                  "centre_of_gravity:scale_invariance:extreme_factor:stack", dict(wit, factor=ce, threshold=thr))
        if np.all(np.isfinite(bbase)):
            ctx.close("bp_scale_extreme", C.brightest_pixel(fimg * ce, frac), bbase, 1e-11 * max(nx, ny), "brightest_pixel:scale_invariance:extreme_factor", dict(wit, factor=ce, fraction=frac))
        q = rng.random((2, 2)) + 0.1
        qb = pure_call(ctx, "quadCell", C.quadCell, q)
        ctx.case("quadCell", key=("q", float(q.sum())), nontrivial=True)
        ctx.close("quadcell_scale", C.quadCell(q * cr), qb, 1e-12, "quadCell:scale_invariance", {"scale": cr})
        ctx.close("quadcell_definition_sign_x", C.quadCell(q[:, ::-1])[0], -qb[0], 1e-15, "quadCell:mirror_x", None)
        ctx.close("quadcell_mirror_y_keeps_x", C.quadCell(q[::-1, :])[0], qb[0], 1e-15, "quadCell:mirror_y_changes_x", None)
        ctx.close("quadcell_definition_sign_y", C.quadCell(q[::-1, :])[1], -qb[1], 1e-15, "quadCell:mirror_y", None)
        ctx.check(qb[0] == (q[:, 1].sum() - q[:, 0].sum()) and qb[1] == (q[1, :].sum() - q[0, :].sum()), "quadCell:definition", "x/y signal is not right-left / bottom-top", None)
        qs = rng.random((3, 2, 2))
        ctx.close("quadcell_stack", C.quadCell(qs), np.array([C.quadCell(f) for f in qs]).T, 1e-15, "quadCell:stack_vs_frame", None)

        # 4. shift equivariance (content stays >= 1 pixel away from the borders)
        ctx.count("shift_groups")
        kx, ky = int(rng.integers(-kmax, kmax + 1)), int(rng.integers(-kmax, kmax + 1))
        sh = np.roll(fimg, (ky, kx), axis=(0, 1))
        ctx.case("shift", key=(ny, nx, kx, ky, thr, float(fimg.sum())), nontrivial=(kx, ky) != (0, 0))
        ctx.close("cog_shift", C.centre_of_gravity(sh, thr), base + np.array([kx, ky]), 1e-11 * max(nx, ny), "centre_of_gravity:shift_equivariance", dict(wit, shift=(kx, ky)))
        shst = np.roll(fst, (ky, kx), axis=(1, 2))
        ctx.close("cog_shift_stack", C.centre_of_gravity(shst, thr), C.centre_of_gravity(fst, thr) + np.array([[kx], [ky]]), 1e-11 * max(nx, ny),
                  "centre_of_gravity:shift_equivariance:stack", dict(wit, shift=(kx, ky)))
        if np.all(np.isfinite(bbase)):
            ctx.close("bp_shift", C.brightest_pixel(sh.copy(), frac), bbase + np.array([kx, ky]), 1e-11 * max(nx, ny), "brightest_pixel:shift_equivariance", dict(wit, shift=(kx, ky)))

        # 5. brightest pixel: definition, stack vs frames
        ctx.case("brightest_pixel", key=(ny, nx, frac, float(img.sum())), nontrivial=lit >= 2, sample=dict(wit, fraction=frac))
        npx = int(round(frac * nx * ny))
        if npx >= 2:
            v = np.sort(fimg.ravel())[-npx]
            if v < fimg.max():
                refb = cog_ref(np.clip(fimg - v, 0, None))
                ctx.close("bp_vs_reference", C.brightest_pixel(fimg.copy(), frac), refb, 1e-11 * max(nx, ny), "brightest_pixel:definition", dict(wit, fraction=frac))
                okf = [f for f in frames if np.sort(f.astype(float).ravel())[-npx] < f.max()]
                if okf:
                    bst = np.stack(okf).astype(np.float64)
                    gb = pure_call(ctx, "brightest_pixel", C.brightest_pixel, bst, frac)
                    pb = np.array([C.brightest_pixel(f.astype(np.float64), frac) for f in okf]).T
                    ctx.close("bp_stack_vs_frame", gb, pb, 1e-11 * max(nx, ny), "brightest_pixel:stack_vs_frame", dict(wit, fraction=frac, depth=len(okf)))

        # 6. correlation centroid: displaced content -> displaced centroid, any padding
        pad = int(rng.integers(1, 5))
        cthr = float([0.0, rng.uniform(0.05, 0.6)][int(rng.integers(0, 2))])
        ref = content(rng, ny, nx, kmax + 1, np.float64, compact=True)
        sx, sy = int(rng.integers(-kmax, kmax + 1)), int(rng.integers(-kmax, kmax + 1))
        im = np.roll(ref, (sy, sx), axis=(0, 1))
        even = (ny % 2 == 0 and nx % 2 == 0)
        w6 = {"shape": (ny, nx), "padding": pad, "shift": (sx, sy), "threshold": cthr}
        ctx.case("correlation_centroid", key=(ny, nx, pad, sx, sy, cthr, float(ref.sum())), nontrivial=True, sample=w6)
        got3 = pure_call(ctx, "correlation_centroid", C.correlation_centroid, im[None].copy(), ref.copy(), cthr, pad)
        got2d = pure_call(ctx, "correlation_centroid", C.correlation_centroid, im.copy(), ref.copy(), cthr, pad)
        ctx.close("corr_2d_vs_3d", got2d, got3, 1e-12 * max(nx, ny), "correlation_centroid:2d_vs_stack", w6)
        sq = "square" if ny == nx else "nonsquare"
        par = "even" if even else "odd"
        # zero lag of the correlation sits at pixel n // 2 (the array centre), whatever the padding
        ctx.close("corr_displacement", got3[:, 0], np.array([nx // 2 + sx, ny // 2 + sy], float), 1e-9 * max(nx, ny),
                  "correlation_centroid:displacement:%s:%s:pad%s" % (par, sq, "1" if pad == 1 else ">1"), w6)
        z1 = C.correlation_centroid(im[None].copy(), ref.copy(), cthr, 1)
        ctx.close("corr_padding_independent", got3, z1, 1e-9 * max(nx, ny), "correlation_centroid:padding_dependent:%s" % par, w6)
        # with padding >= 2 the correlation is linear: content anywhere in the frame, displaced by more than half the frame
        if pad >= 2 and min(ny, nx) >= 10:
            bh, bw = int(rng.integers(1, 3)), int(rng.integers(1, 3))
            blob = rng.random((bh, bw)) + 0.1
            r_far, i_far = np.zeros((ny, nx)), np.zeros((ny, nx))
            ry, rx = int(rng.integers(0, 2)), int(rng.integers(0, 2))
            iy, ix = ny - bh - int(rng.integers(0, 2)), nx - bw - int(rng.integers(0, 2))
            if rng.random() < 0.5:
                (ry, rx), (iy, ix) = (iy, ix), (ry, rx)
            r_far[ry:ry + bh, rx:rx + bw] = blob
            i_far[iy:iy + bh, ix:ix + bw] = blob
            gf = C.correlation_centroid(i_far[None].copy(), r_far.copy(), cthr, pad)
            wf = dict(w6, shift=(ix - rx, iy - ry))
            ctx.case("correlation_centroid_far", key=(ny, nx, pad, ix - rx, iy - ry, cthr), nontrivial=True, sample=wf)
            ctx.close("corr_large_displacement", gf[:, 0], np.array([nx // 2 + ix - rx, ny // 2 + iy - ry], float), 1e-9 * max(nx, ny) * pad,
                      "correlation_centroid:large_displacement:padded", wf)
        # scale invariance and stack handling
        ctx.close("corr_scale", C.correlation_centroid(im[None] * cr, ref.copy(), cthr, pad), got3, 1e-9 * max(nx, ny), "correlation_centroid:scale_invariance", w6)
        ce2 = float(10.0 ** int(rng.integers(-30, 31)))
        ctx.close("corr_scale_extreme", C.correlation_centroid(im[None] * ce2, ref * ce2, cthr, pad), got3, 1e-9 * max(nx, ny),
                  "correlation_centroid:scale_invariance:extreme_factor", dict(w6, factor=ce2))
        # the whole double-precision range of flux units is legal: correlations of 1e+-160 are finite numbers, their squares are not
        for f_im, f_ref in ((1e80, 1e80), (1e-80, 1e-80), (1e165, 1.0), (1.0, 1e-165)):
            with np.errstate(all="ignore"):
                g_hr = C.correlation_centroid(im[None] * f_im, ref * f_ref, cthr, pad)
            ctx.close("corr_scale_range", g_hr, got3, 1e-9 * max(nx, ny), "correlation_centroid:scale_invariance:float64_range",
                      dict(w6, factor_image=f_im, factor_reference=f_ref))
        ctx.close("corr_scale_ref", C.correlation_centroid(im[None].copy(), ref * cr, cthr, pad), got3, 1e-9 * max(nx, ny), "correlation_centroid:scale_invariance:reference", w6)
        others = [np.roll(ref, (int(rng.integers(-kmax, kmax + 1)), int(rng.integers(-kmax, kmax + 1))), axis=(0, 1)) * (i + 1.0) for i in range(int(rng.integers(1, 4)))]
        if rng.random() < 0.5:
            # neighbouring frames of very different brightness (a bright star next to a faint one, ratio up to 1e14): each frame's
            # answer is its own
            others = [o * float(10.0 ** int(rng.integers(-14, 15))) for o in others]
        cst = np.stack([im] + others)
        gall = C.correlation_centroid(cst.copy(), ref.copy(), cthr, pad)
        pall = np.concatenate([C.correlation_centroid(f[None].copy(), ref.copy(), cthr, pad) for f in cst], axis=1)
        ctx.close("corr_stack_vs_frame", gall, pall, 1e-12 * max(nx, ny), "correlation_centroid:stack_vs_frame", w6)
