"""C14 -- pupil masks and sub-aperture selection are exact geometric indicators."""
from fractions import Fraction

import numpy as np

from aomon.core import pure_call

LEVEL = "exploration"
TECHNIQUE = "reference-model monitor in exact rational arithmetic (circle) and definitional recomputation (sub-aperture selection) on the real functions"
LEVEL_TEXT = ("circle() is compared pixel by pixel with the indicator evaluated in exact rational arithmetic for dyadic radii / centres "
              "(where equality is demanded on every boundary pixel, distance == radius included), for every size 1..40, both origins, "
              "centres on and off the half-pixel lattice and circles leaving the frame; nesting, D4 symmetry, integer-shift covariance and "
              "the area law are checked as relations. Sub-aperture selection is recomputed from its definition on exact cells, with "
              "thresholds at, just below and just above attained means, threshold 0, empty cells; scatter/gather identity. Exploration.")
LEVEL_NOTE = "Trusted: Python Fraction arithmetic, NumPy. Generic-float circles skip pixels within 8 ulp of the boundary."
RULE = "case = (function, size, radius, centre, origin) or (mask, sub-aperture count, threshold); non-trivial when the mask is neither empty nor full; distinct by parameters"
ASSUMPTIONS = ["pixel (row i, column j) has centre (x, y) = (j + 1/2, i + 1/2); circle_centre = (cx, cy) shifts x by cx and y by cy",
               "sub-aperture cells are exact when the mask size is a multiple of the count; otherwise only rounding-independent invariants are judged"]
REQUIRED = ["pupil.py:circle", "wfslib.py:findActiveSubaps", "wfslib.py:computeFillFactor", "wfslib.py:make_subaps_2d"]
REQUIRED_COUNTERS = ["boundary_pixels_checked_exactly", "argument_shadow_checks"]


def plan(tier, seed):
    return [{"shard": i, "n_shards": 16, "reps": 6 if tier == "quick" else 1500, "nsel": 50 if tier == "quick" else 15000}
            for i in range(16)]


def exact_circle(r, n, c, origin):
    r, cx, cy = Fraction(r), Fraction(c[0]), Fraction(c[1])
    out = np.zeros((n, n))
    nb = 0
    off = Fraction(n, 2) if origin == "middle" else Fraction(0)
    for i in range(n):
        y = Fraction(2 * i + 1, 2) - off - cy
        for j in range(n):
            x = Fraction(2 * j + 1, 2) - off - cx
            d2 = x * x + y * y
            if d2 <= r * r:
                out[i, j] = 1
            if d2 == r * r:
                nb += 1
    return out, nb


def dyadic(rng, lo, hi, den):
    return float(Fraction(int(rng.integers(int(lo * den), int(hi * den) + 1)), den))


def check_circles(ctx, circle, n, rng, reps):
    for rep in range(reps):
        origin = "middle" if rng.random() < 0.6 else "corner"
        den = int(rng.choice([1, 2, 4, 8]))
        cls = int(rng.integers(0, 5))
        if cls == 0:
            c = (0.0, 0.0) if origin == "middle" else (n / 2.0, n / 2.0)
        elif cls == 1:   # asymmetric, half-pixel lattice
            c = (dyadic(rng, -n / 2, n / 2, 2), dyadic(rng, -n / 2, n / 2, 2))
            if origin == "corner":
                c = (c[0] + n / 2.0, c[1] + n / 2.0)
        else:
            c = (dyadic(rng, -n, n, den), dyadic(rng, -n, n, den))
        r = [0.0, dyadic(rng, 0, n, den), n / 2.0, dyadic(rng, 0, 2 * n, 8), 0.5][int(rng.integers(0, 5))]
        # Pythagorean radii make pixel centres fall exactly on the circle
        if rng.random() < 0.3:
            r = float(rng.choice([2.5, 5.0, 6.5, 12.5, 0.5 * np.hypot(3, 4), np.hypot(1.5, 2.0)]))
        wit = {"radius": r, "size": n, "centre": c, "origin": origin}
        got = pure_call(ctx, "circle", circle, r, n, c, origin)
        want, nb = exact_circle(r, n, c, origin)
        s = got.sum()
        ctx.case("circle_exact", key=(r, n, c, origin), nontrivial=0 < s < n * n, sample=wit)
        ctx.count("boundary_pixels_checked_exactly", nb)
        if not ctx.check(got.shape == (n, n), "circle:shape", "shape %s" % (got.shape,), wit):
            continue
        bad = np.argwhere(got != want)
        ctx.check(len(bad) == 0, "circle:indicator:" + origin + (":asym_centre" if c[0] != c[1] else ":diag_centre"),
                  "%d pixel(s) differ from the exact indicator, first at %s (got %s)" % (len(bad), bad[:1].tolist(), got[tuple(bad[0])] if len(bad) else None), wit)
        ctx.check(set(np.unique(got)) <= {0.0, 1.0}, "circle:values", "values other than 0/1", wit)
        # nested in r
        r2 = r + dyadic(rng, 0, 4, 8)
        big = circle(r2, n, c, origin)
        ctx.check(bool(np.all(big >= got)), "circle:nesting", "mask for r=%s not contained in mask for r=%s" % (r, r2), wit)
        # integer shift of the centre translates the mask
        k, l = int(rng.integers(-3, 4)), int(rng.integers(-3, 4))
        sh = circle(r, n, (c[0] + k, c[1] + l), origin)
        ref = np.zeros((n, n))
        src = got[max(0, -l):n - max(0, l), max(0, -k):n - max(0, k)]
        ref_view = ref[max(0, l):n - max(0, -l), max(0, k):n - max(0, -k)]
        if ref_view.shape == src.shape and src.size:
            inner = sh[max(0, l):n - max(0, -l), max(0, k):n - max(0, -k)]
            ctx.check(bool(np.array_equal(inner, src)), "circle:integer_shift", "shift by (%d,%d) of the centre does not translate the mask" % (k, l), wit)
        # symmetry under the square's symmetries when centred
        if cls == 0:
            for nm, t in (("transpose", got.T), ("flipud", got[::-1]), ("fliplr", got[:, ::-1])):
                ctx.check(bool(np.array_equal(got, t)), "circle:d4_symmetry", "centred mask not invariant under " + nm, wit)
    # a small window on the rim of a huge aperture: radius and centre offset of 2^24 .. 2^26 pixels, all inputs dyadic. There the
    # double products x*x, y*y, their sum and r*r are exact only for some pixels; exactly those pixels are judged (for them the
    # comparison of squares is exact arithmetic, while a square root of the same numbers would round)
    for rep in range(max(2, reps // 2)):
        origin = "middle" if rng.random() < 0.5 else "corner"
        big = float(2 ** int(rng.integers(24, 27))) * float(rng.choice([1.0, 1.25, 1.5]))
        r = big + float(rng.choice([0.0, 0.5, -0.5, 1.0]))
        base = (n / 2.0) if origin == "corner" else 0.0
        side = int(rng.integers(0, 4))
        off = float(rng.integers(-n, n + 1)) / 2.0
        c = [(-big + off, 0.0), (big + off, 0.0), (0.0, -big + off), (0.0, big + off)][side]
        c = (c[0] + base, c[1] + base + float(rng.integers(-2, 3)) / 2.0)
        wit = {"radius": r, "size": n, "centre": c, "origin": origin, "class": "huge_radius_and_offset"}
        got = circle(r, n, c, origin)
        want, nb = exact_circle(r, n, c, origin)
        offF = Fraction(n, 2) if origin == "middle" else Fraction(0)
        exact_repr = lambda q: Fraction(float(q)) == q
        judged = np.zeros((n, n), dtype=bool)
        r2 = Fraction(r) ** 2
        if exact_repr(r2):
            for i in range(n):
                y = Fraction(2 * i + 1, 2) - offF - Fraction(c[1])
                for j in range(n):
                    x = Fraction(2 * j + 1, 2) - offF - Fraction(c[0])
                    judged[i, j] = exact_repr(x * x) and exact_repr(y * y) and exact_repr(x * x + y * y)
        ctx.case("circle_huge_offset", key=(r, n, c, origin), nontrivial=bool(judged.any()), sample=dict(wit, pixels_with_exact_arithmetic=int(judged.sum())))
        ctx.count("huge_offset_pixels_judged", int(judged.sum()))
        bad = np.argwhere((got != want) & judged)
        ctx.check(len(bad) == 0, "circle:indicator:huge_radius_and_offset:" + origin,
                  "%d pixel(s) whose squared distance is exact in double precision differ from the exact indicator on the rim of a huge aperture, first at %s" % (len(bad), bad[:1].tolist()), wit)
    # single-precision centres (a row of a float32 centroid array, numpy.float32 scalars) and a radius that passes a pixel centre
    # at a relative distance of 1e-9: far outside rounding of the double arithmetic, so the exact indicator decides
    for rep in range(max(2, reps // 2)):
        origin = "middle" if rng.random() < 0.7 else "corner"
        c32 = rng.uniform(-n / 4.0, n / 4.0, 2).astype(np.float32)
        if origin == "corner":
            c32 = (c32 + np.float32(n / 2.0)).astype(np.float32)
        off = Fraction(n, 2) if origin == "middle" else Fraction(0)
        i, j = int(rng.integers(0, n)), int(rng.integers(0, n))
        d2 = (Fraction(2 * j + 1, 2) - off - Fraction(float(c32[0]))) ** 2 + (Fraction(2 * i + 1, 2) - off - Fraction(float(c32[1]))) ** 2
        r = float(np.sqrt(float(d2))) * (1 + float(rng.choice([-1, 1])) * 1e-9)
        form = int(rng.integers(0, 3))
        c_arg = [c32, (c32[0], c32[1]), [np.float32(c32[0]), np.float32(c32[1])]][form]
        wit = {"radius": r, "size": n, "centre": [float(c32[0]), float(c32[1])], "centre_type": ["float32 array", "tuple of float32", "list of float32"][form], "origin": origin}
        got = circle(r, n, c_arg, origin)
        want, nb = exact_circle(r, n, (float(c32[0]), float(c32[1])), origin)
        ctx.case("circle_float32_centre", key=(r, n, float(c32[0]), float(c32[1]), origin), nontrivial=0 < got.sum() < n * n, sample=wit)
        ctx.count("float32_centre_cases")
        bad = np.argwhere(got != want)
        ctx.check(len(bad) == 0, "circle:indicator:float32_centre:" + origin,
                  "%d pixel(s) differ from the exact indicator for a single-precision centre, first at %s" % (len(bad), bad[:1].tolist()), wit)
    # generic floats (non-dyadic): skip pixels within 8 ulp of the boundary
    for rep in range(reps):
        origin = "middle" if rng.random() < 0.5 else "corner"
        r = float(rng.uniform(0, n))
        c = (float(rng.uniform(-n / 2, n / 2)), float(rng.uniform(-n / 2, n / 2)))
        if origin == "corner":
            c = (c[0] + n / 2.0, c[1] + n / 2.0)
        got = circle(r, n, c, origin)
        off = n / 2.0 if origin == "middle" else 0.0
        jj, ii = np.meshgrid(np.arange(n) + 0.5 - off - c[0], np.arange(n) + 0.5 - off - c[1])
        d2 = jj * jj + ii * ii
        amb = np.abs(d2 - r * r) <= 8 * np.finfo(float).eps * np.maximum(d2, r * r)
        want = (d2 <= r * r).astype(float)
        ctx.case("circle_float", key=(r, n, c, origin), nontrivial=0 < got.sum() < n * n)
        ctx.check(bool(np.all((got == want) | amb)), "circle:indicator_float:" + origin, "generic-float circle differs from the indicator away from the boundary",
                  {"radius": r, "size": n, "centre": c, "origin": origin})
        # area law for circles well inside the frame
        if origin == "middle" and abs(c[0]) + r < n / 2.0 - 1 and abs(c[1]) + r < n / 2.0 - 1 and r > 2:
            ctx.close("area", got.sum(), np.pi * r * r, 2 * np.sqrt(2) * np.pi * r + 2 * np.pi, "circle:area_law",
                      {"radius": r, "size": n, "centre": c})


def gen_mask(rng, size, circle):
    kind = int(rng.integers(0, 5))
    if kind == 0:
        return circle(size / 2.0, size)
    if kind == 1:
        return circle(size / 2.0, size) - circle(size / 6.0, size)
    if kind == 2:
        return (rng.random((size, size)) < rng.uniform(0.05, 0.95)).astype(float)
    if kind == 3:
        m = np.zeros((size, size))
        m[: size // 2] = 1
        return m
    return circle(size / 3.0, size, (dyadic(rng, -size / 4, size / 4, 2), dyadic(rng, -size / 4, size / 4, 2)))


# (mask size, count) pairs at which k * size / count sits on a rounding tie for some k (cell edges computed in two ways differ there)
TIE_PAIRS = [(25, 12), (25, 14), (21, 20), (22, 20), (26, 24), (23, 22), (33, 18), (27, 18), (30, 12), (35, 14), (45, 18), (50, 20), (21, 14), (15, 10), (9, 6), (25, 10)]


def check_selection(ctx, wfs, circle, rng, n, shard=0):
    for it in range(n):
        subaps = int(rng.integers(1, 9))
        exact = rng.random() < 0.75
        cell = int(rng.integers(1, 7))
        if not exact and rng.random() < 0.5:
            subaps = int(rng.integers(9, 25))          # many cells on a mask that is not a multiple of the count
        size = subaps * cell if exact else int(rng.integers(subaps, (6 if subaps < 9 else 2) * subaps + 1))
        if it < 2:                                      # always present, spread over the shards
            exact = False
            size, subaps = TIE_PAIRS[(2 * shard + it) % len(TIE_PAIRS)]
        mask = gen_mask(rng, size, circle)
        wit = {"subaps": subaps, "size": size, "mask_sum": float(mask.sum())}
        tcls = int(rng.integers(0, 6))
        means = sorted({float(mask[a * cell:(a + 1) * cell, b * cell:(b + 1) * cell].mean())
                        for a in range(subaps) for b in range(subaps)}) if exact else [0.5]
        tm = means[int(rng.integers(0, len(means)))]
        thr = [0.0, tm, float(np.nextafter(tm, 2.0)), float(np.nextafter(tm, -1.0)), float(rng.uniform(0, 1)), 1.0][tcls]
        wit["threshold"] = thr
        coords, fills = pure_call(ctx, "findActiveSubaps", wfs.findActiveSubaps, subaps, mask, thr, True)
        coords_only = wfs.findActiveSubaps(subaps, mask, thr)
        ctx.case("select_exact" if exact else "select_generic", key=(subaps, size, thr, float(mask.sum()), it),
                 nontrivial=0 < len(coords) < subaps * subaps, sample=wit)
        ctx.check(np.array_equal(np.asarray(coords_only), np.asarray(coords)), "findActiveSubaps:returnFill_changes_result",
                  "coordinates differ with/without returnFill", wit)
        coords = np.asarray(coords).reshape(-1, 2)
        ctx.check(len(fills) == len(coords), "findActiveSubaps:fills_length", "len(fills) != len(coords)", wit)
        if exact:
            want = []
            wf = []
            for a in range(subaps):
                for b in range(subaps):
                    m = float(mask[a * cell:(a + 1) * cell, b * cell:(b + 1) * cell].mean())
                    if m >= thr:
                        want.append([a * cell, b * cell])
                        wf.append(m)
            want = np.array(want, dtype=float).reshape(-1, 2)
            ok = coords.shape == want.shape and np.array_equal(coords, want)
            ctx.check(ok, "findActiveSubaps:active_set" + (":threshold_le_0" if thr <= 0 else ""),
                      "active cells differ from {cells with mean >= threshold}: got %d, want %d" % (len(coords), len(want)), wit)
            if ok:
                ctx.check(np.array_equal(np.asarray(fills, dtype=float), np.array(wf)), "findActiveSubaps:fill_values", "fill factors differ from the cell means", wit)
                ff = pure_call(ctx, "computeFillFactor", wfs.computeFillFactor, mask, coords, cell)
                ctx.check(np.array_equal(np.asarray(ff, dtype=float), np.array(wf)), "computeFillFactor:agreement", "computeFillFactor differs from the selection's fills", wit)
        else:
            sp = size / float(subaps)
            grid = {(a * sp, b * sp) for a in range(subaps) for b in range(subaps)}
            ctx.check(all((float(x), float(y)) in grid for x, y in coords), "findActiveSubaps:coords_on_grid", "coordinates not on the ideal grid", wit)
            ctx.check(bool(np.all(np.asarray(fills) >= thr)), "findActiveSubaps:fill_below_threshold", "an active cell has fill < threshold", wit)
            # the cells are a grid: they tile the mask, so a single lit pixel belongs to exactly one cell (whatever the
            # size / count ratio and however the cell edges are rounded), and that cell contains the pixel
            for _ in range(6 if it >= 2 else 40):
                if rng.random() < 0.6:      # pixels next to an ideal cell edge
                    py = int(np.clip(round(int(rng.integers(1, subaps + 1)) * sp) + int(rng.integers(-1, 1)), 0, size - 1))
                    px = int(np.clip(round(int(rng.integers(1, subaps + 1)) * sp) + int(rng.integers(-1, 1)), 0, size - 1))
                else:
                    py, px = int(rng.integers(0, size)), int(rng.integers(0, size))
                one = np.zeros((size, size))
                one[py, px] = 1.0
                act = np.asarray(wfs.findActiveSubaps(subaps, one, 1e-9)).reshape(-1, 2)
                ctx.count("single_pixel_partition_checks")
                wp = dict(wit, lit_pixel=(py, px), active=act.tolist()[:4])
                if ctx.check(len(act) == 1, "findActiveSubaps:cells_do_not_tile:%s" % ("overlap" if len(act) > 1 else "gap"),
                             "a single lit pixel (%d,%d) of a %dx%d mask activates %d of the %dx%d cells" % (py, px, size, size, len(act), subaps, subaps), wp):
                    a0, b0 = float(act[0][0]), float(act[0][1])
                    ctx.check(a0 - 1 <= py < a0 + sp + 1 and b0 - 1 <= px < b0 + sp + 1, "findActiveSubaps:active_cell_does_not_contain_pixel",
                              "lit pixel (%d,%d) activates the cell at (%g,%g) of pitch %g" % (py, px, a0, b0, sp), wp)
        # monotone in the threshold
        thr2 = thr + float(rng.uniform(0, 0.5))
        c2 = np.asarray(wfs.findActiveSubaps(subaps, mask, thr2)).reshape(-1, 2)
        s1 = {tuple(v) for v in coords.tolist()}
        s2 = {tuple(v) for v in c2.tolist()}
        ctx.check(s2 <= s1, "findActiveSubaps:monotone", "raising the threshold %s -> %s added cells" % (thr, thr2), wit)
        # all-ones mask: every cell active with fill 1 (any threshold <= 1)
        co, fi = wfs.findActiveSubaps(subaps, np.ones((size, size)), thr, True)
        n_want = subaps * subaps if thr <= 1.0 else 0
        ctx.check(len(co) == n_want and bool(np.all(np.asarray(fi) == 1)), "findActiveSubaps:all_ones", "all-ones mask: %d of %d active" % (len(co), n_want), wit)
        # scatter / gather
        nx = int(rng.integers(1, 8))
        sm = (rng.random((nx, nx)) < 0.6).astype(int)
        ns = int(sm.sum())
        nf = int(rng.integers(1, 4))
        dt = [np.float64, np.float32, np.int32, np.complex128][int(rng.integers(0, 4))]
        data = (rng.standard_normal((nf, 2, ns)) * 100).astype(dt)
        lay = int(rng.integers(0, 4))
        sm = [sm, np.asfortranarray(sm), np.ascontiguousarray(sm.T).T, np.rot90(sm).copy(order="F")][lay] if nx > 1 else sm
        ns = int(sm.sum())
        data = data[:, :, :ns]
        out = pure_call(ctx, "make_subaps_2d", wfs.make_subaps_2d, data, sm)
        ctx.case("scatter_gather", key=(nx, ns, nf, str(dt), it), nontrivial=0 < ns < nx * nx)
        w2 = {"mask": sm.tolist(), "frames": nf, "dtype": str(dt)}
        if ctx.check(out.shape == (nf, 2, nx, nx), "make_subaps_2d:shape", "shape %s" % (out.shape,), w2):
            ctx.check(np.array_equal(out[:, :, sm == 1], data), "make_subaps_2d:gather_identity", "reading back through the mask is not the identity", w2)
            ctx.check(bool(np.all(out[:, :, sm == 0] == 0)), "make_subaps_2d:zeros_elsewhere", "masked positions not zero", w2)
            ctx.check(out.dtype == data.dtype, "make_subaps_2d:dtype", "dtype %s != %s" % (out.dtype, data.dtype), w2)


def run(ctx, spec):
    import aotools
    circle = aotools.functions.pupil.circle
    rng = ctx.rng
    sizes = [n for n in range(1, 41) if n % spec["n_shards"] == spec["shard"]]
    for n in sizes:
        check_circles(ctx, aotools.circle, n, rng, spec["reps"])
    check_selection(ctx, aotools.wfs.wfslib, aotools.circle, rng, spec["nsel"], spec["shard"])
