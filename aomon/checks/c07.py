"""C07 -- FFT phase screens have exactly the discretised von Karman statistics.

The ensemble over all random draws is observed exactly: a scripted numpy Generator is
injected through the public `seed=` parameter, the screen's Jacobian with respect to every
draw is measured with unit draws (2 N^2 executions of the real generator, + 54 for the
sub-harmonic variant), and J J^T is compared with an explicit discrete Fourier sum.
"""
import numpy as np

from aomon.oracles import screen as so, vk
from aomon.probes import ScriptedGenerator, unit_script, discover_shapes, unit_stream_script, DrawLedger

LEVEL = "exploration"
TECHNIQUE = "unit-draw probing of the real generator through an injected numpy Generator (exact ensemble covariance) vs an explicit discrete Fourier sum; draw-request log monitor"
LEVEL_TEXT = ("For even N up to 16 (quick) / 32 (thorough) the full Jacobian of the returned screen with respect to every Gaussian draw is "
              "observed on the real code, so the exact ensemble covariance between all pixel pairs is compared with the inverse discrete "
              "Fourier sum of the modified von Karman spectrum (1e-12); zero response to zero draws, linearity, the r0^(-5/6) law, the draw "
              "requests themselves (two N x N standard normals, plus six 3 x 3), the FFT= hook, families of calls that share (N, delta, L0) "
              "but differ in r0 / l0 within one process (incl. l0 > L0 and L0 = inf), integer / None seeds tied to the probed ensemble by an exactly-once ledger over every Gaussian draw of the generators the library creates (no number may be used twice; with and without the FFT= hook), the grid size given as numpy integers of every width, the sub-harmonic increment (exactly the low-frequency sum, never negative) and a "
              "refinement ladder against the analytic structure function. One coefficient of a 5800-point (quick) / 8192-point (thorough) grid, whose squared integer wave numbers exceed 2^24, is observed through a scripted unit draw and must carry the amplitude sqrt(PSD) del_f to 1e-10. Exploration over parameters; exact over draws.")
LEVEL_NOTE = ("Trusted: the explicit Fourier sum in aomon/oracles/screen.py, NumPy. Integer seeds cannot be scripted; they are tied to the "
              "probed ensemble by demanding that seed=s gives the same screen as seed=numpy.random.default_rng(s) (one independent stream).")
RULE = "case = (variant, N, delta, r0, L0, l0, probe kind); non-trivial always; distinct by parameters"
ASSUMPTIONS = ["even N", "draws are injected with a numpy Generator passed as seed (the documented int seed goes through the same default_rng call)"]
REQUIRED = ["phasescreen.py:ft_phase_screen", "phasescreen.py:ft_sh_phase_screen"]
REQUIRED_COUNTERS = ["probe_screens", "covariance_entries_compared", "draw_logs_checked", "same_grid_families"]
TIMEOUT = {"quick": 900, "thorough": 7200}


def plan(tier, seed):
    out = []
    for i in range(16):
        s = {"shard": i, "families": 1 if tier == "quick" else 4,
             "sizes": [4, 6, 8, 10, 12, 16] if tier == "quick" else [4, 6, 8, 10, 12, 14, 16, 20, 24, 32],
             "ladder": None}
        out.append(s)
    # refinement ladder: one rung per shard (the last rung dominates the cost)
    rungs = [16, 32, 64] if tier == "quick" else [32, 64, 128, 256]
    for k, N in enumerate(rungs):
        out[k]["ladder"] = {"N": N, "rungs": rungs}
    # one coefficient of a grid whose squared integer wave numbers exceed 2^24 (single precision would round them): ~3 GB, 30-60 s
    out[9]["large_grid"] = 5800 if tier == "quick" else 8192
    return out


def jacobian(ctx, fn, N, shapes, args, kw=None):
    """Rows: draws (all entries of every requested array, in request order); columns: pixels."""
    kw = kw or {}
    rows = []
    for which, shp in enumerate(shapes):
        for idx in range(int(np.prod(shp))):
            g = ScriptedGenerator(unit_script(which, idx, shapes))
            s = fn(*args, seed=g, **kw)
            ctx.count("probe_screens")
            rows.append(np.asarray(s, dtype=np.float64).ravel())
    return np.array(rows)


def check_draw_log(ctx, g, shapes, wit, variant):
    ctx.count("draw_logs_checked")
    got = [l["size"] for l in g.log]
    ctx.check(got == [tuple(s) for s in shapes], variant + ":draw_requests", "normal() requests %s, expected %s" % (got, shapes), wit)
    ctx.check(all(l["loc"] == 0.0 and l["scale"] == 1.0 for l in g.log), variant + ":draws_not_standard_normal", "a draw is not N(0,1): %s" % g.log, wit)


def expected_cov(N, delta, r0, L0, l0):
    C = so.grid_covariance(N, delta, r0, L0, l0)
    ii = np.arange(N)
    d = (ii[:, None] - ii[None, :]) % N
    # cov[(i,j),(k,l)] = C[(i-k) mod N, (j-l) mod N]
    return C[d[:, None, :, None], d[None, :, None, :]].reshape(N * N, N * N), C


def check_family(ctx, aotools, N, rng, L0_inf=False):
    delta = float(10 ** rng.uniform(-3, 0.5))
    L0 = float(N * delta * 10 ** rng.uniform(-1.3, 1.7))     # L0 < delta ... L0 >> N delta
    if L0_inf is True:
        L0 = float("inf")                                    # the Kolmogorov limit of the spectrum
    elif L0_inf:
        L0 = float(L0_inf)                                   # a huge finite number passed in place of inf
    base = (float(10 ** rng.uniform(-2, 0.5)), float(delta * 10 ** rng.uniform(-3, 0.8)))
    # each variant directly follows the base parameters (exercises even a one-entry cache with an incomplete key)
    variants = [base, (base[0] * float(rng.uniform(1.5, 4)), base[1]), base, (base[0], base[1] * float(rng.uniform(2, 6)))]
    if np.isfinite(L0) and rng.random() < 0.5:
        variants.append((base[0], L0 * float(rng.uniform(1.5, 5))))       # inner scale larger than the outer scale: legal, if odd
    ctx.count("same_grid_families")
    fn = aotools.ft_phase_screen
    g_probe = ScriptedGenerator([])
    fn(base[0], N, delta, L0, base[1], seed=g_probe)
    shapes = [tuple(l["size"]) for l in g_probe.log]        # the draw requests are observed, not presupposed
    for vi, (r0, l0) in enumerate(variants):
        wit = {"N": N, "delta": delta, "r0": r0, "L0": L0, "l0": l0, "member_of_family": vi}
        ctx.case("ft_phase_screen", key=(N, delta, r0, L0, l0, vi), nontrivial=True, sample=wit)
        args = (r0, N, delta, L0, l0)
        g0 = ScriptedGenerator([])
        z = fn(*args, seed=g0)
        check_draw_log(ctx, g0, shapes, wit, "ft_phase_screen")
        ctx.check(sum(int(np.prod(sh)) for sh in shapes) == 2 * N * N, "ft_phase_screen:number_of_draws",
                  "the screen consumes %d standard-normal numbers, a complex coefficient per frequency needs %d" % (sum(int(np.prod(sh)) for sh in shapes), 2 * N * N), wit)
        ctx.check(np.shape(z) == (N, N) and float(np.abs(z).max()) == 0.0, "ft_phase_screen:zero_draws", "non-zero screen for zero draws", wit)
        J = jacobian(ctx, fn, N, shapes, args)
        cov = J.T @ J
        want, C = expected_cov(N, delta, r0, L0, l0)
        ctx.count("covariance_entries_compared", cov.size)
        ctx.close("ensemble_covariance", cov, want, 1e-11 * C[0, 0], "ft_phase_screen:ensemble_covariance" + (":family_member" if vi else ""), wit, scale=C[0, 0])
        # linearity in the draws and the r0^(-5/6) law, with dense random draws
        b1s = [rng.standard_normal(sh) for sh in shapes]
        b2s = [rng.standard_normal(sh) for sh in shapes]
        b = [None] * 4
        s1 = fn(*args, seed=ScriptedGenerator(b1s))
        s2 = fn(*args, seed=ScriptedGenerator(b2s))
        a1, a2 = float(rng.uniform(-2, 2)), float(rng.uniform(-2, 2))
        s12 = fn(*args, seed=ScriptedGenerator([a1 * x + a2 * y for x, y in zip(b1s, b2s)]))
        sc = float(np.abs(s1).max() + np.abs(s2).max()) + 1e-300
        ctx.close("linearity_in_draws", s12, a1 * s1 + a2 * s2, 1e-12 * sc, "ft_phase_screen:linearity", wit, scale=sc)
        ctx.close("screen_is_J_times_draws", s1.ravel(), np.concatenate([x.ravel() for x in b1s]) @ J, 1e-11 * sc, "ft_phase_screen:affine_map", wit, scale=sc)
        c = float(rng.uniform(0.2, 5))
        sr = fn(r0 * c, N, delta, L0, l0, seed=ScriptedGenerator(b1s))
        ctx.close("r0_scaling", sr, s1 * c ** (-5.0 / 6.0), 1e-12 * sc * max(1, c ** (-5 / 6.)), "ft_phase_screen:r0_scaling", wit, scale=sc)
        # the same screen in other length units (r0, pixel size, L0, l0 scaled together): phase is dimensionless
        cu = float(10 ** rng.uniform(-9, 3))
        su = fn(r0 * cu, N, delta * cu, L0 * cu, l0 * cu, seed=ScriptedGenerator(b1s))
        # (an inner scale far above the pixel size leaves a screen of ~1e-150 rad, where intermediate products underflow
        # differently in different units: not judged)
        resolved = sc > 1e-60
        if resolved:
            ctx.close("length_unit_invariance", su, s1, 1e-10 * sc, "ft_phase_screen:depends_on_absolute_length_scale", dict(wit, unit_factor=cu), scale=sc)
        else:
            ctx.count("unit_invariance_skipped_underflowing_screen")
        if N <= 12 and resolved:
            shs_u = discover_shapes(aotools.ft_sh_phase_screen, *args)
            bsh = [rng.standard_normal(sh) for sh in shs_u]
            a_sh = aotools.ft_sh_phase_screen(*args, seed=ScriptedGenerator(bsh))
            b_sh = aotools.ft_sh_phase_screen(r0 * cu, N, delta * cu, L0 * cu, l0 * cu, seed=ScriptedGenerator(bsh))
            scs = float(np.abs(a_sh).max()) + 1e-300
            ctx.close("length_unit_invariance_sh", b_sh, a_sh, 1e-10 * scs, "ft_sh_phase_screen:depends_on_absolute_length_scale", dict(wit, unit_factor=cu), scale=scs)
        # the FFT= hook must be equivalent to the default path
        sf = fn(*args, FFT=np.fft.ifft2, seed=ScriptedGenerator(b1s))
        ctx.close("FFT_hook", sf, s1, 1e-12 * sc, "ft_phase_screen:FFT_hook", wit, scale=sc)
        # seeded reproducibility through the documented integer seed (same stream -> same screen)
        si = fn(*args, seed=12345)
        sj = fn(*args, seed=12345)
        ctx.check(np.array_equal(si, sj), "ft_phase_screen:int_seed_reproducible", "same integer seed gives different screens", wit)

        # integer / None seeds (the generators are then made inside the library): the screen must be a linear image of
        # independent draws, so no Gaussian number may be used twice -- exactly-once ledger over every draw of every
        # generator the library creates (the plain screen inside the sub-harmonic one included)
        for sd in (0, 7, int(rng.integers(0, 2 ** 31)), None):
            for nm, f_ in (("ft_phase_screen", fn), ("ft_sh_phase_screen", aotools.ft_sh_phase_screen)):
                kwf = {"FFT": np.fft.ifft2} if sd == 7 else {}            # the FFT= hook must not change the draw structure
                with DrawLedger() as led:
                    s_int = f_(*args, seed=sd, **kwf)
                if led.n_draws() == 0:
                    ctx.count("ledger_saw_no_draws(not judged)")
                    continue
                ctx.count("seeded_calls_under_draw_ledger")
                ctx.count("ledger_draws", led.n_draws())
                nre, ex = led.reused()
                ctx.check(nre == 0, nm + ":integer_seed_is_not_one_independent_stream",
                          "seed=%r: %d of %d Gaussian draws occur twice (e.g. %r): the coefficients are not independent" % (sd, nre, led.n_draws(), ex), dict(wit, seed=sd))
        # the grid size may come as any integer type (numpy scalars of every width included): same screen
        if vi == 0:
            for NN, typ in ((N, np.int64), (N, np.int32), (N, np.uint8), (12, np.int8), (200, np.int16), (200, np.uint16)):
                sh_t = discover_shapes(fn, r0, NN, delta, L0, l0)
                bt = [rng.standard_normal(sh) for sh in sh_t]
                ref_t = fn(r0, NN, delta, L0, l0, seed=ScriptedGenerator(bt))
                got_t = fn(r0, typ(NN), delta, L0, l0, seed=ScriptedGenerator(bt))
                sct = float(np.abs(ref_t).max()) + 1e-300
                ctx.case("grid_size_type", key=(NN, typ.__name__, delta, r0), nontrivial=True)
                ctx.count("grid_size_type_checks")
                ctx.check(np.shape(got_t) == np.shape(ref_t), "ft_phase_screen:grid_size_as_numpy_integer", "N=%s(%d): shape %s" % (typ.__name__, NN, np.shape(got_t)), wit) and \
                    ctx.close("grid_size_type", got_t, ref_t, 1e-9 * sct, "ft_phase_screen:grid_size_as_numpy_integer", dict(wit, N=NN, N_type=typ.__name__), scale=sct)
        # ---- sub-harmonic variant (N <= 12 keeps the cost low) ----
        if N <= 12 or vi == 0:
            fsh = aotools.ft_sh_phase_screen
            gs = ScriptedGenerator([])
            zs = fsh(*args, seed=gs)
            sh_shapes = [tuple(l["size"]) for l in gs.log]
            ctx.count("draw_logs_checked")
            ctx.check(all(l["loc"] == 0.0 and l["scale"] == 1.0 for l in gs.log), "ft_sh_phase_screen:draws_not_standard_normal", "a draw is not N(0,1)", wit)
            ctx.check(np.shape(zs) == (N, N) and float(np.abs(zs).max()) == 0.0, "ft_sh_phase_screen:zero_draws", "non-zero screen for zero draws", wit)
            ctx.case("ft_sh_phase_screen", key=(N, delta, r0, L0, l0, "sh", vi), nontrivial=True)
            Jsh = jacobian(ctx, fsh, N, sh_shapes, args)
            cov_sh = Jsh.T @ Jsh
            dsh, dhi = np.diag(cov_sh), np.diag(cov)
            D_sh = dsh[:, None] + dsh[None, :] - 2 * cov_sh
            D_hi0 = dhi[:, None] + dhi[None, :] - 2 * cov
            D_lo = D_sh - D_hi0          # what the sub-harmonics add to the structure function of every pixel pair
            ii = np.arange(N)
            dx = (ii[None, :, None, None] - ii[None, None, None, :]) * delta     # along axis 1 (x)
            dy = (ii[:, None, None, None] - ii[None, None, :, None]) * delta     # along axis 0 (y)
            inc = so.subharmonic_covariance_increment(N, delta, r0, L0, l0, 0.0, 0.0) - \
                so.subharmonic_covariance_increment(N, delta, r0, L0, l0, dx + 0 * dy, dy + 0 * dx)
            want_lo = 2 * inc.reshape(N * N, N * N)
            sc_lo = float(np.abs(want_lo).max()) + 1e-300
            sc_hi = float(np.abs(D_hi0).max()) + 1e-300
            ctx.count("covariance_entries_compared", want_lo.size)
            ctx.close("subharmonic_increment", D_lo, want_lo, 1e-10 * sc_lo + 1e-11 * sc_hi, "ft_sh_phase_screen:increment_is_low_frequency_sum", wit, scale=sc_lo)
            ctx.check(float(D_lo.min()) >= -1e-11 * (sc_lo + sc_hi), "ft_sh_phase_screen:structure_function_decreases",
                      "sub-harmonics lower a structure-function value by %.3g" % float(-D_lo.min()), wit)
            # closer to the analytic curve at large separations, where sub-harmonics are meant to act
            if N * delta <= L0 / 2 and np.isfinite(L0) and L0 < 1e20:
                dv = np.diag(cov)
                D_hi = dv[:, None] + dv[None, :] - 2 * cov
                p0 = 0
                far = [(N // 2) * N + 0, (N // 2) * N + N // 2, N // 2]
                for q in far:
                    sep = delta * np.hypot(*(np.array(divmod(q, N)) - np.array(divmod(p0, N))))
                    ana = float(vk.structure_function(sep, r0, L0))
                    e_hi = abs(D_hi[p0, q] - ana)
                    e_sh = abs(D_hi[p0, q] + D_lo[p0, q] - ana)
                    ctx.metric("sh_err/fft_err_at_large_separation", e_sh / e_hi if e_hi else 0.0)
                    ctx.check(e_sh <= e_hi * (1 + 1e-9), "ft_sh_phase_screen:not_closer_at_large_separation",
                              "|D_sh - D_analytic| = %.4g > |D_fft - D_analytic| = %.4g at separation %.3g" % (e_sh, e_hi, sep), wit)


def jacobian_subset(ctx, fsh, N, shapes, args, rng):
    """A few rows of the sub-harmonic variant's Jacobian for high-frequency draws (must equal the plain screen's)."""
    idx = sorted(set(int(v) for v in rng.integers(0, 2 * N * N, 6)))
    rows = []
    for k in idx:
        which, pos = divmod(k, N * N)
        g = ScriptedGenerator(unit_script(which, pos, shapes))
        rows.append(np.asarray(fsh(*args, seed=g), dtype=np.float64).ravel())
        ctx.count("probe_screens")
    return idx, np.array(rows)


def ladder_rung(ctx, aotools, N, rungs):
    """Ensemble structure function along one axis from the real Jacobian, streamed; compared with the analytic curve."""
    L0 = 10.0
    extent = 5.0 * L0           # N delta >= 4 L0
    delta = extent / N
    r0 = 0.15
    l0 = delta / 100.0
    p0 = 0
    acc0 = 0.0
    accr = np.zeros(N)
    shapes = discover_shapes(aotools.ft_phase_screen, r0, N, delta, L0, l0)
    for pos in range(sum(int(np.prod(sh)) for sh in shapes)):
        g = ScriptedGenerator(unit_stream_script(pos, shapes))
        s = aotools.ft_phase_screen(r0, N, delta, L0, l0, seed=g)
        ctx.count("probe_screens")
        accr += s[0, 0] * s[0, :]
        acc0 += s[0, 0] ** 2
    D = 2 * (acc0 - accr)
    lags = np.arange(N) * delta
    sel = (lags >= extent / 16) & (lags <= extent / 4)
    ana = vk.structure_function(lags[sel], r0, L0)
    dev = float(np.max(np.abs(D[sel] / ana - 1)))
    ctx.case("refinement_ladder", key=("ladder", N), nontrivial=True, sample={"N": N, "delta": delta, "L0": L0, "max_rel_dev": dev})
    ctx.metric("ladder_dev_N%d" % N, dev)
    # exact discrete value for the same rung (oracle) -- the real code must sit on it
    C = so.grid_covariance(N, delta, r0, L0, l0)
    ctx.close("ladder_vs_discrete_sum", D, 2 * (C[0, 0] - C[0, :]), 1e-10 * C[0, 0], "ft_phase_screen:ensemble_covariance:ladder", {"N": N}, scale=C[0, 0])
    # the refinement statement itself is judged on the oracle-identical curve at every rung
    devs = []
    for M in rungs:
        d = extent / M
        CM = so.grid_covariance(M, d, r0, L0, d / 100.0)
        lg = np.arange(M) * d
        sl = (lg >= extent / 16) & (lg <= extent / 4)
        devs.append(float(np.max(np.abs(2 * (CM[0, 0] - CM[0, sl]) / vk.structure_function(lg[sl], r0, L0) - 1))))
    ctx.note("ladder deviations %s for N = %s" % (devs, rungs))
    if N == rungs[-1]:
        ctx.check(all(a >= b - 1e-12 for a, b in zip(devs[:-1], devs[1:])), "refinement:not_monotone", "deviation from the analytic curve does not shrink: %s" % devs, None)
        # bounded restatement of "approaches the analytic curve as the grid is refined": the deviation shrinks at every
        # rung, by at least a factor 4 over the ladder, and is below 3 % once N >= 256 (8 % at N = 64; the curve is
        # deterministic -- fixed parameters -- so these are not noise margins)
        ctx.check(dev <= devs[0] / 4.0, "refinement:too_slow", "deviation only went from %.4f to %.4f" % (devs[0], dev), None)
        bound = 0.03 if N >= 256 else 0.08
        ctx.check(dev <= bound, "refinement:finest_level", "deviation at the finest level (N=%d) is %.4f > %.2f" % (N, dev, bound), None)


def large_grid_probe(ctx, aotools, N):
    """One coefficient of a grid with several thousand points a side (integer wave numbers whose squares sum beyond 2^24): the plane wave a unit
    draw produces must have the amplitude sqrt(PSD(f)) del_f of the screen's own frequency grid, to double rounding -- the same constant
    of proportionality as on a 64-point grid."""
    r0, L0 = 0.2, 30.0

    def amplitude(M):
        delta = 60.0 / M
        l0 = delta / 50.0
        small = discover_shapes(aotools.ft_phase_screen, r0, 8, 60.0 / 8, L0, 60.0 / 8 / 50.0)
        if not all(all(d == 8 for d in sh) and len(sh) == 2 for sh in small) or not small:
            return None
        shapes = [tuple(M for _ in sh) for sh in small]
        scr = np.asarray(aotools.ft_phase_screen(r0, M, delta, L0, l0, seed=ScriptedGenerator(unit_stream_script(1, shapes))))
        ctx.count("probe_screens")
        del_f = 1.0 / (M * delta)
        f = del_f * np.sqrt((M / 2.0) ** 2 + (M / 2.0 - 1.0) ** 2)
        a = float(np.sqrt(2.0 * np.mean(scr.astype(np.float64) ** 2)))
        return a / (np.sqrt(so.psd_mvk(f, r0, L0, l0)) * del_f)

    c_small = amplitude(64)
    if c_small is None or not np.isfinite(c_small) or c_small == 0:
        ctx.count("large_grid_probe_not_applicable(draw pattern not scriptable)")
        return
    c_big = amplitude(N)
    wit = {"N": N, "cell": (0, 1), "constant_at_N=64": c_small, "constant_at_N": c_big}
    ctx.case("large_grid_coefficient", key=("large_grid", N), nontrivial=True, sample=wit)
    ctx.close("large_grid_amplitude", c_big / c_small, 1.0, 1e-10, "ft_phase_screen:coefficient_amplitude:grid_of_thousands_of_points", wit)


def run(ctx, spec):
    import aotools
    from aotools.turbulence import phasescreen as ps
    rng = ctx.rng
    if not (aotools.ft_phase_screen is ps.ft_phase_screen and aotools.ft_sh_phase_screen is ps.ft_sh_phase_screen):
        ctx.note("top-level screen functions are other objects than phasescreen's (not judged)")
    sizes = spec["sizes"]
    for f in range(spec["families"]):
        N = sizes[(spec["shard"] + f * 7) % len(sizes)]
        check_family(ctx, aotools, N, rng)
    if spec["shard"] % 4 == 1:
        check_family(ctx, aotools, int(rng.choice([6, 8, 10])), rng, L0_inf=True)
    if spec["shard"] % 4 == 3:
        check_family(ctx, aotools, int(rng.choice([6, 8, 10])), rng, L0_inf=[1e30, 1e90, 1e150, 1e300][(spec["shard"] // 4) % 4])
    if spec["shard"] % 4 == 2:
        # "all draws of the generator": unseeded screens come from the full ensemble, not from a small set of seeds
        from aomon.core import digest
        for nm, f_ in (("ft_phase_screen", aotools.ft_phase_screen), ("ft_sh_phase_screen", aotools.ft_sh_phase_screen)):
            m = 1500
            ds = {digest(np.asarray(f_(0.2, 4, 0.1, 20.0, 0.01))) for _ in range(m)}
            ctx.case("unseeded_ensemble:" + nm, key=("unseeded", nm, ctx.seed, ctx.shard), nontrivial=True, sample={"calls": m, "distinct": len(ds)})
            ctx.count("unseeded_screens", m)
            ctx.check(len(ds) == m, nm + ":unseeded_screens_from_a_finite_set", "%d unseeded 4x4 screens: only %d distinct" % (m, len(ds)), {"calls": m})
    if spec.get("large_grid"):
        large_grid_probe(ctx, aotools, spec["large_grid"])
    if spec.get("ladder"):
        ladder_rung(ctx, aotools, spec["ladder"]["N"], spec["ladder"]["rungs"])
