"""C16 -- binning, zooming and radial reductions preserve image content."""
import numpy as np

from aomon.core import pure_call

LEVEL = "exploration"
TECHNIQUE = "definitional reference monitors (block sums, tensor-product polynomials, node subsampling, ring / disc sums) on the real functions"
LEVEL_TEXT = ("binImgs is compared bit-exactly with reshape block sums on integer-valued images and stacks up to 4-D for every divisor; both "
              "zoom entry points are checked for identity at unchanged size, node interpolation, exactness on random tensor-product "
              "polynomials of degree <= order (orders 1,3,5, real and complex, int / tuple / rectangular target sizes) and mutual "
              "agreement; azimuthal averages against direct ring means; encircled-energy curves for start-at-0, monotonicity, bound, "
              "nearest-grid-point crossing and an analytic Gaussian, with default, integer and pixel-centre centres. 64-bit integer frames with counts above 2^53 must bin to the exact integer sums. Exploration.")
LEVEL_NOTE = "Trusted: NumPy. Integer images are kept a factor 8 or more from the end of their dtype (accumulation in the input dtype is documented behaviour)."
RULE = "case = (function, shape, n | target size, order, dtype | image kind, fraction, centre); non-trivial when the image is non-constant; distinct by parameters"
ASSUMPTIONS = ["zoom: square input arrays larger than the spline order", "encircled energy: non-negative images of even size"]
REQUIRED = ["interpolation.py:binImgs", "interpolation.py:zoom", "interpolation.py:zoom_rbs", "psf.py:azimuthal_average", "psf.py:encircled_energy"]
REQUIRED_COUNTERS = ["argument_shadow_checks", "polynomial_cases"]


def plan(tier, seed):
    return [{"shard": i, "reps": 12 if tier == "quick" else 6000} for i in range(16)]


def check_bin(ctx, binImgs, rng):
    n = int(rng.integers(1, 9))
    a, b = int(rng.integers(1, 7)), int(rng.integers(1, 7))
    lead = tuple(int(v) for v in rng.integers(1, 4, int(rng.integers(0, 3))))
    dt = [np.float64, np.int64, np.float32, np.int32, np.uint16][int(rng.integers(0, 5))]
    if rng.random() < 0.2:
        n = a * 1  # n equal to the whole (square) size
        a = b = 1
    shape = lead + (a * n, b * n)
    data = rng.integers(0, 100, shape).astype(dt)
    lay = str(rng.choice(["C", "C", "F", "transposed_view", "strided_view"]))
    if lay == "F":
        data = np.asfortranarray(data)
    elif lay == "transposed_view":
        data = np.ascontiguousarray(np.swapaxes(data, -1, -2)).swapaxes(-1, -2)      # same values, last two axes stored transposed
    elif lay == "strided_view":
        big = np.zeros(lead + (2 * a * n, 3 * b * n), dtype=dt)
        big[..., ::2, 1::3] = data
        data = big[..., ::2, 1::3]
    wit = {"shape": shape, "n": n, "dtype": str(np.dtype(dt)), "memory_layout": lay}
    ctx.case("binImgs", key=(shape, n, str(dt)), nontrivial=data.size > 1, sample=wit)
    got = pure_call(ctx, "binImgs", binImgs, data, n)
    want = data.reshape(lead + (a, n, b, n)).sum(axis=(-3, -1))
    if ctx.check(got.shape == want.shape, "binImgs:shape", "shape %s != %s" % (got.shape, want.shape), wit):
        cls = "stack" if lead else "image"
        ctx.check(np.array_equal(got.astype(np.float64), want.astype(np.float64)), "binImgs:block_sums:" + cls,
                  "binned values differ from the n x n block sums", wit)
        ctx.check(float(got.astype(np.float64).sum()) == float(data.astype(np.float64).sum()), "binImgs:flux", "total flux not preserved", wit)
    # 64-bit integer counts beyond 2^53 (accumulated / co-added frames, packed detector words): exactly representable in the
    # image's own dtype, not in a double; block sums stay below 2^60, a factor 8 from the end of the range
    for dt64 in (np.int64, np.uint64):
        d64 = (np.asarray(data, dtype=np.float64).astype(dt64) + dt64(2 ** 53 + 1)) if data.size else data.astype(dt64)
        w64 = d64.reshape(lead + (a, n, b, n)).sum(axis=(-3, -1), dtype=dt64)
        g64 = np.asarray(binImgs(d64, n))
        wit64 = dict(wit, dtype=str(np.dtype(dt64)), values="2^53 + 1 + [0, 100)")
        ctx.case("binImgs_wide_integers", key=(shape, n, str(dt64)), nontrivial=d64.size > 1, sample=wit64)
        if ctx.check(g64.shape == w64.shape, "binImgs:shape", "shape %s != %s" % (g64.shape, w64.shape), wit64):
            exact = (np.array_equal(g64, w64) if g64.dtype.kind in "iu" else
                     all(int(x) == int(y) for x, y in zip(np.asarray(g64, dtype=object).ravel(), w64.ravel())))
            ctx.check(bool(exact), "binImgs:block_sums:integers_above_2^53", "block sums of a 64-bit integer image are not the exact integer sums", wit64)
    # high dynamic range (a hot / saturated pixel next to a faint background): every block sum depends on its own block only
    if n >= 2 and a * b >= 2:
        import math
        hdr = np.ones(shape, dtype=np.float64) * float(rng.uniform(0.5, 2.0))
        hot = tuple(int(rng.integers(0, s_)) for s_ in shape)
        hdr[hot] = float(2.0 ** int(rng.integers(40, 70)))
        gh = np.asarray(binImgs(hdr, n), dtype=np.float64)
        blocks = hdr.reshape(lead + (a, n, b, n))
        blocks = np.moveaxis(blocks, -3, -2).reshape(lead + (a, b, n * n))
        wh = np.array([math.fsum(v) for v in blocks.reshape(-1, n * n)]).reshape(lead + (a, b))
        ah = np.abs(blocks).sum(-1)
        ctx.count("hdr_block_sums", wh.size)
        wit_h = dict(wit, hot_pixel=hot, hot_value=float(hdr[hot]))
        if ctx.check(gh.shape == wh.shape, "binImgs:shape", "shape %s != %s" % (gh.shape, wh.shape), wit_h):
            err = np.abs(gh - wh) / (4 * n * n * 2.3e-16 * ah)
            ctx.metric("hdr_block_err/(4 n^2 eps sum|block|)", float(err.max()))
            ctx.check(bool(err.max() <= 1.0), "binImgs:block_sums:high_dynamic_range",
                      "a block sum is off by %.3g x (4 n^2 eps sum|block|): blocks away from the hot pixel are not their own sums" % float(err.max()), wit_h)
    got2 = binImgs(data, float(n) + (0.2 if rng.random() < 0.5 else 0.0))
    ctx.check(np.array_equal(got2, got), "binImgs:float_factor", "n given as float (rounded) gives a different result", wit)


def poly_eval(coef, xs, ys):
    px = np.vander(xs, coef.shape[0], increasing=True)
    py = np.vander(ys, coef.shape[1], increasing=True)
    return px @ coef @ py.T


def check_zoom(ctx, interp, rng):
    order = int(rng.choice([1, 3, 5]))
    n = int(rng.integers(order + 1, 24))
    cplx = rng.random() < 0.4
    dt = (np.complex128 if rng.random() < 0.5 else np.complex64) if cplx else np.float64
    for name, fn in (("zoom", interp.zoom), ("zoom_rbs", interp.zoom_rbs)):
        wit = {"fn": name, "n": n, "order": order, "dtype": str(np.dtype(dt))}
        tolf = 2e-4 if dt == np.complex64 else 1e-9
        img = rng.standard_normal((n, n))
        if cplx:
            img = (img + 1j * rng.standard_normal((n, n))).astype(dt)
        mx = float(np.abs(img).max())
        # unchanged size -> input (int and tuple forms)
        ctx.case(name + ":same_size", key=(name, n, order, str(dt)), nontrivial=True, sample=wit)
        same = pure_call(ctx, name, fn, img, n, order)
        ctx.close(name + ":same_size", same, img.astype(same.dtype), tolf * mx, name + ":same_size", wit, scale=mx)
        same_t = fn(img, (n, n), order)
        ctx.close(name + ":same_size_tuple", same_t, img.astype(same_t.dtype), tolf * mx, name + ":same_size", wit, scale=mx)
        # nodes preserved when the new grid contains the old one
        k = int(rng.integers(2, 5))
        big = fn(img, k * (n - 1) + 1, order)
        if ctx.check(big.shape == (k * (n - 1) + 1,) * 2, name + ":shape", "shape %s" % (big.shape,), wit):
            ctx.close(name + ":nodes", big[::k, ::k], img.astype(big.dtype), tolf * mx, name + ":passes_through_nodes", wit, scale=mx)
        # complex = real + i imag
        if cplx:
            sz = (int(rng.integers(2, 40)), int(rng.integers(2, 40)))
            zc = fn(img, sz, order)
            zr = fn(np.ascontiguousarray(img.real).astype(np.float64), sz, order)
            zi = fn(np.ascontiguousarray(img.imag).astype(np.float64), sz, order)
            ctx.close(name + ":complex_split", zc, (zr + 1j * zi).astype(zc.dtype), tolf * mx, name + ":complex_is_real_plus_i_imag:order%d" % order, wit, scale=mx)
        # exact on tensor-product polynomials of degree <= order; rectangular target size
        ctx.count("polynomial_cases")
        coef = rng.standard_normal((order + 1, order + 1))
        if cplx:
            coef = coef + 1j * rng.standard_normal((order + 1, order + 1))
        xs = np.arange(n) / float(n)   # scaled coordinate keeps the polynomial O(1)
        P = poly_eval(coef, xs, xs).astype(dt)
        sz = (int(rng.integers(2, 50)), int(rng.integers(2, 50)))
        zp = fn(P, sz, order)
        wx = np.linspace(0, n - 1, sz[0]) / float(n)
        wy = np.linspace(0, n - 1, sz[1]) / float(n)
        want = poly_eval(coef, wx, wy)
        w2 = dict(wit, target=sz)
        if ctx.check(zp.shape == sz, name + ":shape_rect", "target %s gave shape %s" % (sz, zp.shape), w2):
            pm = float(np.abs(want).max())
            ctx.close(name + ":polynomial", zp, want.astype(zp.dtype), (5e-4 if dt == np.complex64 else 1e-8) * pm,
                      name + ":polynomial_exactness:order%d:%s" % (order, "complex" if cplx else "real"), w2, scale=pm)
    # the two entry points agree
    sz = (int(rng.integers(2, 40)), int(rng.integers(2, 40)))
    img = rng.standard_normal((n, n))
    z1 = interp.zoom(img, sz, order)
    z2 = interp.zoom_rbs(img, sz, order)
    if ctx.check(z1.shape == z2.shape, "zoom_vs_zoom_rbs:shape", "%s vs %s" % (z1.shape, z2.shape), {"n": n, "target": sz, "order": order}):
        ctx.close("zoom_vs_zoom_rbs", z1, z2, 1e-9 * float(np.abs(img).max()), "zoom_vs_zoom_rbs", {"n": n, "target": sz, "order": order})


def check_azimuthal(ctx, psf, rng):
    size = int(rng.integers(2, 40))
    kind = int(rng.integers(0, 6))
    if kind == 4:        # bright core on a faint flat floor (dynamic range ~1e20)
        data = np.full((size, size), 1e-20)
        data[size // 2 - 1:size // 2 + 1, size // 2 - 1:size // 2 + 1] = 1.0
    elif kind == 5:      # unit sky with an enormous core
        data = np.ones((size, size))
        data[size // 2, size // 2] = 1e19
    elif kind == 0:
        data = np.full((size, size), float(rng.uniform(-5, 5)))
    elif kind == 1:
        data = rng.standard_normal((size, size))
    elif kind == 2:
        data = rng.random((size, size)) * 10 - 3
    else:
        c = np.arange(size) + 0.5 - size / 2.0
        data = np.exp(-(np.add.outer(c ** 2, c ** 2)) / (2 * (size / 6.0 + 0.5) ** 2))
    wit = {"size": size, "kind": kind}
    ctx.case("azimuthal_average", key=(size, kind, float(data.flat[0])), nontrivial=kind != 0, sample=wit)
    got = pure_call(ctx, "azimuthal_average", psf.azimuthal_average, data)
    if not ctx.check(got.shape == (size // 2,), "azimuthal_average:shape", "shape %s" % (got.shape,), wit):
        return
    mx = float(np.abs(data).max()) + 1e-300
    if kind == 0:
        ctx.close("azavg_constant", got, np.full(size // 2, data.flat[0]), 1e-13 * mx, "azimuthal_average:constant", wit)
    c = np.arange(size) + 0.5 - size / 2.0
    d2 = np.add.outer(c ** 2, c ** 2)
    rings = [data[(d2 <= (i + 1) ** 2) & ~(d2 <= i ** 2)] for i in range(size // 2)]
    want = np.array([r.mean() for r in rings])
    # the mean of a ring can only be off by rounding relative to the values *in that ring* (not to the brightest pixel
    # of the image): a faint flat outer region next to a bright core must still average to its own level
    rtol = np.array([64 * 2.3e-16 * float(np.abs(r).max()) * max(1, len(r)) ** 0.5 + 1e-300 for r in rings])
    ctx.check(bool(np.all(got >= data.min() - rtol) and np.all(got <= data.max() + rtol)), "azimuthal_average:bounds",
              "a value lies outside [min, max] of the image (min %.3g, smallest output %.3g)" % (float(data.min()), float(got.min())), wit)
    ctx.close("azavg_vs_ring_means", got, want, rtol, "azimuthal_average:ring_means", wit, scale=mx)


def check_ee(ctx, psf, rng):
    size = 2 * int(rng.integers(2, 33))
    dim = size // 2
    kind = int(rng.integers(0, 4))
    ccls = int(rng.integers(0, 4))
    center = [None, [dim, dim], [int(rng.integers(1, size)), int(rng.integers(1, size))],
              [int(rng.integers(0, size)) + 0.5, int(rng.integers(0, size)) + 0.5]][ccls]
    c = np.arange(size) + 0.5
    cen = [dim, dim] if center is None else center
    sig = float(rng.uniform(1.0, dim / 2.5 + 1.0))
    if kind == 0:
        data = np.exp(-((c[None, :] - cen[0]) ** 2 + (c[:, None] - cen[1]) ** 2) / (2 * sig ** 2))
    elif kind == 1:
        data = rng.random((size, size))
    elif kind == 2:
        data = np.zeros((size, size))
        data[int(min(size - 1, cen[1])), int(min(size - 1, cen[0]))] = 3.0   # single bright pixel at / next to the centre
    else:
        data = rng.random((size, size)) ** 8
    frac = float(rng.uniform(0.02, 0.98))
    wit = {"size": size, "kind": kind, "center": center, "fraction": frac, "sigma": sig}
    ctx.case("encircled_energy", key=(size, kind, str(center), frac), nontrivial=True, sample=wit)
    xi, yi = pure_call(ctx, "encircled_energy", psf.encircled_energy, data, frac, center, False)
    d = psf.encircled_energy(data, frac, center) if center is not None else psf.encircled_energy(data, fraction=frac)
    cc = ["default", "integer", "integer", "pixel_centre"][ccls]
    ctx.check(xi[0] == 0 and yi[0] == 0, "encircled_energy:starts_at_0:" + cc, "curve starts at (%s, %s)" % (xi[0], yi[0]), wit)
    ctx.check(bool(np.all(np.diff(yi) >= -1e-13)), "encircled_energy:monotone", "curve decreases", wit)
    ctx.check(bool(np.all(yi <= 1 + 1e-12) and np.all(yi >= 0)), "encircled_energy:bounds", "curve leaves [0, 1]", wit)
    ctx.check(bool(np.all(np.diff(xi) > 0)), "encircled_energy:axis", "diameter axis not increasing", wit)
    # reported diameter: the grid point whose curve value is nearest the requested fraction
    dist = np.abs(yi - frac)
    j = np.where(xi == d)[0]
    ok = len(j) == 1 and dist[j[0]] <= dist.min() + 1e-15
    ctx.check(ok, "encircled_energy:diameter_is_crossing", "reported diameter %s is not the grid point nearest the crossing of %s" % (d, frac), wit)
    if ok and yi.max() > frac + 1e-9 and kind == 0:
        # strictly increasing PSF-like curve: the reported point is adjacent to the linear-interpolation crossing
        k = int(np.argmax(yi >= frac))
        xstar = np.interp(frac, yi[max(k - 1, 0):k + 1], xi[max(k - 1, 0):k + 1]) if k > 0 else 0.0
        ctx.check(abs(d - xstar) <= (xi[1] - xi[0]) * 1.0000001, "encircled_energy:diameter_near_crossing",
                  "diameter %s is more than a grid step from the crossing at %s" % (d, xstar), wit)
    if kind == 0 and ccls in (0, 1) and sig >= 2 and 3.5 * sig <= dim:
        ana = 1 - np.exp(-(xi / 2.0) ** 2 / (2 * sig ** 2))
        ctx.close("ee_gaussian", yi, ana, 0.1, "encircled_energy:analytic_gaussian", wit)


def run(ctx, spec):
    import aotools
    from aotools import interpolation
    from aotools.image_processing import psf
    rng = ctx.rng
    for fn in ("zoom", "zoom_rbs", "binImgs", "azimuthal_average", "encircled_energy"):
        ctx.check(hasattr(aotools, fn), "export:" + fn, "aotools.%s missing" % fn, None)
    for rep in range(spec["reps"]):
        for _ in range(4):
            check_bin(ctx, aotools.binImgs, rng)
        check_zoom(ctx, interpolation, rng)
        check_azimuthal(ctx, psf, rng)
        check_ee(ctx, psf, rng)
        check_ee(ctx, psf, rng)
