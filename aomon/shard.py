"""Subprocess entry point: run one shard of one property's check.

usage: python -m aomon.shard <prop> <tier> <seed> <shard_idx> <spec.json> <out.json>
"""
import faulthandler
import importlib
import json
import os
import sys
import traceback
import warnings


def main(argv):
    prop, tier, seed, idx, specfile, outfile = argv
    seed = int(seed)
    idx = int(idx)
    faulthandler.enable()
    from aomon import boot
    boot.setup_paths()
    os.environ.setdefault("AOTOOLS_VERIF", "1")
    with open(specfile) as f:
        spec = json.load(f)
    from aomon.core import Ctx, Reach
    warnings.simplefilter("ignore")
    reach = Reach(boot.repo_path())
    reach.start()
    ctx = Ctx(prop, tier, seed, idx, spec)
    status = "ok"
    err = None
    try:
        boot.import_aotools()
        mod = importlib.import_module("aomon.checks." + prop.lower())
        mod.run(ctx, spec)
    except BaseException as e:
        tb = traceback.extract_tb(e.__traceback__)
        repo = os.path.realpath(boot.repo_path()) + os.sep
        inner = tb[-1] if tb else None
        lib_frames = [f for f in tb if os.path.realpath(f.filename).startswith(repo)]
        text = "".join(traceback.format_exception(type(e), e, e.__traceback__))[-6000:]
        verif = os.path.realpath(boot.VERIF) + os.sep
        last_lib = max([i for i, f in enumerate(tb) if os.path.realpath(f.filename).startswith(repo)], default=-1)
        # raised by the library, or by NumPy / SciPy (compiled frames carry relative names such as numpy/random/mtrand.pyx)
        # underneath a library frame, with no harness frame (a scripted generator, a substituted pool) in between
        below_lib_is_foreign = last_lib >= 0 and not any(os.path.isabs(f.filename) and os.path.realpath(f.filename).startswith(verif) for f in tb[last_lib + 1:])
        if isinstance(e, Exception) and inner is not None and lib_frames and below_lib_is_foreign:
            # the library itself raised on an input inside the property's quantifier: a violation, with its traceback
            f = lib_frames[-1]
            ctx.fail("exception_in_library:%s:%s:%s" % (os.path.basename(f.filename), f.name, type(e).__name__),
                     "aotools raised %r at %s:%d" % (e, os.path.basename(f.filename), f.lineno), {"traceback": text[-1500:]})
            ctx.note("shard stopped early at a library exception")
        else:  # harness error, not a verdict
            status = "error"
            err = text
    reach.stop()
    res = ctx.result(reach.seen)
    res["status"] = status
    res["error"] = err
    with open(outfile, "w") as f:
        json.dump(res, f)
    return 0


if __name__ == "__main__":
    sys.exit(main(sys.argv[1:]))
