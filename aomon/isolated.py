"""Run one object's own operation sequence in this (fresh) interpreter and print the digests of its outputs.

usage: python -m aomon.isolated <json-file>   (json: {"new": {...}, "n_ops": k})
Used by C06 as the isolated-execution oracle: nothing else runs in this process.
"""
import json
import sys


def make_seed(spec):
    import numpy as np
    if spec is None:
        return None
    if "int" in spec:
        return int(spec["int"])
    if "npint" in spec:
        return np.int64(spec["npint"])
    if "list" in spec:
        return list(spec["list"])
    if "array" in spec:
        return np.array(spec["array"], dtype=np.uint32)
    if "ss" in spec:
        return np.random.SeedSequence(int(spec["ss"]))
    raise ValueError(spec)


def create(aotools, new):
    kind, p, seed = new["kind"], new["params"], make_seed(new["seed"])
    if kind == "vk":
        return aotools.PhaseScreenVonKarman(p["nx"], p["ps"], p["r0"], p["L0"], random_seed=seed, n_columns=p["extra"])
    if kind == "fried":
        return aotools.PhaseScreenKolmogorov(p["nx"], p["ps"], p["r0"], p["L0"], random_seed=seed, stencil_length_factor=p["extra"])
    if kind == "ft":
        return aotools.ft_phase_screen(p["r0"], p["N"], p["delta"], p["L0"], p["l0"], seed=seed)
    if kind == "ftsh":
        return aotools.ft_sh_phase_screen(p["r0"], p["N"], p["delta"], p["L0"], p["l0"], seed=seed)
    raise ValueError(kind)


def output_of(obj):
    import numpy as np
    if isinstance(obj, np.ndarray):
        return obj
    return np.array(obj.scrn, copy=True)


def main(argv):
    from aomon import boot
    boot.setup_paths()
    import warnings
    warnings.simplefilter("ignore")
    aotools = boot.import_aotools()
    from aomon.core import digest
    with open(argv[0]) as f:
        jobs = json.load(f)
    out = []
    job = jobs
    if job.get("mode") == "c20":
        # run the listed program operations, in the listed order, on one shared pool; digest every result
        from aomon.checks import c20
        ops = c20.program_ops(aotools)
        pool = c20.make_pool(job["pool_seed"])
        digs = {}
        for k in job["order"]:
            digs[str(k)] = c20.value_digest(ops[k][1](pool))
        print("DIGESTS " + json.dumps(digs))
        return
    obj = create(aotools, job["new"])
    digs = [digest(output_of(obj))]
    for _ in range(job["n_ops"]):
        obj.add_row()
        digs.append(digest(output_of(obj)))
    print("DIGESTS " + json.dumps(digs))


if __name__ == "__main__":
    main(sys.argv[1:])
