#!/bin/sh
# Self-test of the machinery: every seeded change, own mutant and reverted fix must be caught (exit 1) by the
# check(s) of its property on a scratch copy; every refactor and the unchanged copy must stay silent (exit 0).
# usage: selftest/run_all.sh [quick|thorough]      (scratch copies under /dev/shm, removed as it goes)
cd "$(dirname "$0")/.." || exit 2
tier=${1:-quick}
bad=0
say() { echo "$@"; }
for d in seeded/*/; do
  n=$(basename "$d"); p=${n%%-*}
  st=$(/venv/bin/python -c "import json;print(json.load(open('$d/meta.json')).get('status_on_current_tree','caught'))")
  case "$st" in obsolete*|out_of_scope*) say "seeded $n -> skipped ($st)"; continue;; esac
  props=$(/venv/bin/python -c "import json;print(' '.join(json.load(open('$d/meta.json'))['caught_by']) or '$p')")
  for q in $props; do
    out=$(selftest/mutant.py --tier $tier --patch "$d/patch.diff" $q 2>&1 | head -1)
    say "seeded $n -> $out"; case "$out" in *OK*) ;; *) bad=1;; esac
  done
done
for f in selftest/mutants/*.diff; do
  n=$(basename "$f" .diff); p=${n%%_*}
  out=$(selftest/mutant.py --tier $tier --patch "$f" $p 2>&1 | head -1)
  say "mutant $n -> $out"; case "$out" in *OK*) ;; *) bad=1;; esac
done
while read -r prop commit rest; do
  [ -z "$prop" ] && continue
  out=$(selftest/mutant.py --tier $tier --revert "$commit" $prop 2>&1 | head -1)
  say "revert $commit ($prop) -> $out"; case "$out" in *OK*) ;; *) bad=1;; esac
done <<LIST
$(/venv/bin/python -c "
import json
for f in json.load(open('known_findings.json'))['findings']:
    if f['status']=='fixed': print(f['property'], f['commit'])
")
LIST
for f in selftest/refactors/*.diff; do
  [ -e "$f" ] || continue
  n=$(basename "$f" .diff); p=${n%%_*}
  r=$(AOTOOLS_KEEP=1 selftest/mutant.py --tier $tier --patch "$f" $p 2>&1 | head -1)
  case "$r" in *"exit=0"*) say "refactor $n -> silent OK";; *"exit=2"*) say "refactor $n -> inconclusive (no alarm; the monitor cannot observe this implementation) OK";; *) say "refactor $n -> $r  (FALSE ALARM)"; bad=1;; esac
done
[ $bad -eq 0 ] && echo "SELFTEST PASSED" || echo "SELFTEST FAILED"
exit $bad
