#!/venv/bin/python
"""Run checks against a mutated scratch copy of the repository (never /repo itself).

usage: selftest/mutant.py (--patch FILE | --revert COMMIT | --none) [--tier quick] PROP [PROP...]
The scratch copy lives under /dev/shm and is removed afterwards. Prints one line per
property:  <prop> exit=<rc>  and exits 0 iff every listed check exited 1 (mutant caught);
with --none (unchanged copy) it exits 0 iff every check exited 0.
"""
import argparse
import os
import shutil
import subprocess
import sys
import tempfile

VERIF = os.path.dirname(os.path.dirname(os.path.abspath(__file__)))


def main():
    ap = argparse.ArgumentParser()
    g = ap.add_mutually_exclusive_group(required=True)
    g.add_argument("--patch")
    g.add_argument("--revert")
    g.add_argument("--none", action="store_true")
    ap.add_argument("--tier", default="quick")
    ap.add_argument("--repo", default="/repo")
    ap.add_argument("--show", action="store_true")
    ap.add_argument("props", nargs="+")
    a = ap.parse_args()
    base = "/dev/shm" if os.path.isdir("/dev/shm") else None
    scratch = tempfile.mkdtemp(prefix="aomut_", dir=base)
    try:
        dst = os.path.join(scratch, "repo")
        subprocess.check_call(["rsync", "-a", "--exclude", ".git", "--exclude", "__pycache__",
                               a.repo + "/", dst + "/"])
        if a.patch:
            subprocess.check_call(["patch", "-s", "-p1", "-d", dst, "-i", os.path.abspath(a.patch)])
        elif a.revert:
            diff = subprocess.check_output(["git", "-C", a.repo, "show", "--format=", a.revert])
            subprocess.run(["patch", "-s", "-R", "-p1", "-d", dst], input=diff, check=True)
        ok = True
        for p in a.props:
            env = dict(os.environ, AOTOOLS_REPO=dst, VERIF_EVIDENCE_DIR=os.path.join(scratch, "ev"))
            r = subprocess.run([os.path.join(VERIF, "vcheck"), p, a.tier], env=env,
                               stdout=subprocess.PIPE, stderr=subprocess.STDOUT, text=True)
            want = 0 if a.none else 1
            print("%s exit=%d %s" % (p, r.returncode, "OK" if r.returncode == want else "UNEXPECTED"))
            if a.show or r.returncode != want:
                print("\n".join("    " + l for l in r.stdout.splitlines()[-25:]))
            ok = ok and r.returncode == want
        return 0 if ok else 1
    finally:
        shutil.rmtree(scratch, ignore_errors=True)


if __name__ == "__main__":
    sys.exit(main())
