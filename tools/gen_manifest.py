#!/venv/bin/python
"""Regenerate MANIFEST.json from the check modules that exist (aomon/checks/cXX.py)."""
import importlib
import json
import os
import sys

VERIF = os.path.dirname(os.path.dirname(os.path.abspath(__file__)))
sys.path.insert(0, VERIF)
props = [json.loads(l) for l in open(os.path.join(VERIF, "properties.jsonl"))]
checks, na = [], []
for p in props:
    pid = p["id"]
    path = os.path.join(VERIF, "aomon", "checks", pid.lower() + ".py")
    if not os.path.exists(path):
        na.append({"property_id": pid, "reason": "no check registered yet in this round of the build (see DESIGN.md section 4 for the planned monitor)"})
        continue
    sys.path.insert(0, os.path.join(VERIF, ".deps"))
    mod = importlib.import_module("aomon.checks." + pid.lower())
    mod_consts = {n: getattr(mod, n) for n in ("LEVEL_TEXT", "LEVEL_NOTE", "TECHNIQUE", "DESIGN_REF") if hasattr(mod, n)}
    checks.append({
        "property_id": pid,
        "quick_cmd": "./vcheck %s quick" % pid,
        "thorough_cmd": "./vcheck %s thorough" % pid,
        "evidence_file": "/verif/evidence/%s.json" % pid,
        "replay_cmd_template": "./vcheck %s --replay {path}" % pid,
        "engine": "aomon",
        "level_claimed": {
            "category": "exploration",
            "text": mod_consts.get("LEVEL_TEXT", "held on the executions observed"),
            "design_ref": mod_consts.get("DESIGN_REF", "DESIGN.md section 4, " + pid),
        },
        "level_note": mod_consts.get("LEVEL_NOTE", ""),
        "technique": mod_consts.get("TECHNIQUE", "runtime monitoring"),
    })
man = {
    "version": 1,
    "setup_cmd": "PIP_NO_INDEX=1 PYTHONPATH=/verif /venv/bin/python -m aomon.boot",
    "hooks": {
        "guard": "AOTOOLS_VERIF",
        "enable": "no source hooks: checks import aotools from /repo's working tree in fresh interpreters with AOTOOLS_VERIF=1 set; monitors attach from outside (icontract post-conditions on the real callables, injected numpy Generator, substituted multiprocessing pool, sys.monitoring)",
        "baseline_off_cmd": "cd /repo && env -u AOTOOLS_VERIF /venv/bin/python -m pytest -ra -q -p no:cacheprovider --timeout=900 --continue-on-collection-errors",
        "source_commits": [],
        "add_only": True,
    },
    "engines": [{
        "name": "aomon",
        "path": "/verif/aomon",
        "serves_properties": [c["property_id"] for c in checks],
        "kind_free_text": "runtime monitoring harness: sharded workloads in fresh interpreters, icontract post-conditions and hand-written reference-model / relation / history monitors over executions of the real code, three-valued verdicts, mechanism-keyed known findings",
    }],
    "checks": checks,
    "not_applicable": na,
    "notes": "All verdicts are 'held on the executions observed'. Exit 0 held / 1 violation (VIOLATION line) / 2 inconclusive. Known findings: /verif/known_findings.json.",
}
with open(os.path.join(VERIF, "MANIFEST.json"), "w") as f:
    json.dump(man, f, indent=1)
print("claimed:", [c["property_id"] for c in checks])
print("not applicable:", [n["property_id"] for n in na])
