#!/bin/sh
cd "$(dirname "$0")/.." || exit 2
for d in /tmp/mut9/C*_out; do
  p=$(basename $d _out)
  for k in m11; do
    [ -f $d/$k.diff ] || continue
    [ -d seeded/$p-$k ] && continue
    tools/ingest_seeded.py $p $k $d/$k.diff $d/${k}_demo.py $d/${k}_notes.md "$@" 2>&1 | tail -2 | cut -c1-330
  done
done
