#!/venv/bin/python
"""Writes known_findings.json (committed; never touched at run time by the checks)."""
import json, os
VERIF = os.path.dirname(os.path.dirname(os.path.abspath(__file__)))
fixed = [
 ("C12", "a3a1a84", "every Zernike mode raised AttributeError (numpy.math.factorial does not exist on NumPy 2), e.g. zernike_nm(2,0,32)"),
 ("C16", "0e06f4f", "zoom() always raised NotImplementedError (scipy.interpolate.interp2d removed)"),
 ("C16", "89097a5", "zoom_rbs(a, 50) raised TypeError; zoom_rbs(a,(11,16)) on a square array returned shape (16,11) (evaluation axes swapped)"),
 ("C19", "05c792b", "calculate_structure_function lag 0 was uninitialised memory (numpy.empty), not 0"),
 ("C19", "a2e7da0", "calc_slope_temporalps squared the modulus twice: doubling the slopes multiplied the spectrum by 16"),
 ("C18", "b1c97d7", "equivalent_layers dropped the top layers (sum Cn2 lost) when arange(hmin,hmax,step) produced L+1 edges, e.g. N=24, L=15, h in [0,15393.23]"),
 ("C18", "5175202", "optimal_grouping(R, 1, h, p) returned zero layers"),
 ("C20", "28cd284", "correlation_centroid modified im (values and shape of a 2-D array) and ref in place"),
 ("C20", "2fcdb89", "centre_of_gravity zeroed sub-threshold pixels in the caller's stack"),
 ("C20", "a0f9b70", "brightest_pixel subtracted from / clipped the caller's image in place"),
 ("C20", "842019f", "rms_contrast divided the caller's image by its maximum in place"),
 ("C20", "2828678", "phase_covariance added 1e-40 to the caller's float32 array in place"),
 ("C09", "c109e75", "aotools.ift2 was turbulence.phasescreen.ift2 (star-import order): wrong for odd N (error 4.4 at 7x7) and for batch axes"),
 ("C09", "3dc5e16", "ft/ift/ft2/ift2: origin one sample off centre for odd N (centred Gaussian error 0.45 at N=57); ift(ft(x)) != x for odd N"),
 ("C09", "fd1ab22", "irft(rft(x)) = x*(N/2+1)/N (0.625 at N=8); irft2 transformed along the wrong axis"),
 ("C01", "feb400e", "x-y cross blocks wrong for asymmetric masks (bitwise-OR mirror garbage, relative error 3e9) and off-axis guide stars (24-29 %)"),
 ("C01", "d1dbdae", "xx/yy blocks wrong by 7.6 % when two sensors' projected sub-aperture sizes differ (mixed NGS/LGS)"),
 ("C01", "5cceeae", "sub-aperture centres shifted by one sub-aperture; mis-registration d*h/H between sensors with different cone scaling"),
 ("C01", "b2eebef", "mirror_covariance_matrix: bitwise OR of float32 triangles gave arbitrary values / indefinite matrix (relative error 3e3 at wavelength scale 0.0158, 1e-6 at SI scales)"),
 ("C11", "db0148c", "twoStepFresnel output point-reflected for every magnification != 1 (off-axis Gaussian beam error 0.99 vs 1e-15 after repair)"),
 ("C10", "fb0ee06", "twoStepFresnel(U, wvl, d, d, numpy.float64(z)) returned NaN (m == 1 relied on ZeroDivisionError)"),
 ("C15", "e34c2d2", "correlation_centroid zero-shift position for odd sizes depended on the padding (4, 4.5, 4 for 9x9 with padding 1, 2, 3)"),
 ("C13", "3034ab1", "make_kl / gkl_sfi raised IndexError or ValueError for radial samplings such as nr = 19, 31, 33, 38, 49 (rebin returned one sample too many)"),
 ("C13", "ed33e53", "gkl_basis raised IndexError for nr = 31, 42, 60 (NaN kernel: root of a squared distance rounded to -1e-16)"),
 ("C07", "7aa4c85", "ft_sh_phase_screen with an integer seed: sub-harmonic draws repeated the first numbers of the high-frequency stream; structure-function values decreased by up to 4 % (N=8, L0=0.26 N delta: -0.00384 +- 0.00013 over 40000 seeds) instead of only gaining low-frequency power"),
 ("C05", "7ebd098", "infinite von Karman screen unstable for finely sampled screens: PhaseScreenVonKarman(12, 0.01, 0.2, 150) constructs but its row recursion has spectral radius 1.11 (single-precision phase_covariance); screens diverge within ~100 rows"),
 ("C08", "23b1b66", "structure_function_vk(0, r0, L0) and stf_vonKarman(0, L0) returned NaN instead of 0"),
 ("C07", "9734c23", "ft_phase_screen / ft_sh_phase_screen raised IndexError when the grid size N was an unsigned NumPy integer (numpy.uint8(12), numpy.uint16(200)): -N/2 wrapped around"),
 ("C10", "4b4066a", "twoStepFresnel lost power for very small magnifications: Dz2 = z - z/(1-m) cancels, for d2/d1 = 3.6e-9 (N=32, wvl=8.29e-6, d1=0.868, z=-0.0106) the output power was off by 3e-8 (1.5e-13 at m = 1e-3)"),
 ("C11", "dcda3e9", "angularSpectrum added 1e-10 m^2 to the squared input radius: spurious constant phase k/2 (1-m)/z 1e-10 (1e-5 rad on resolved Gaussian beams) and, for nm / pm sized grids, a magnification round trip off by 1e-8 .. 1e-7 (N=33, d=1.35e-10, wvl=1.2e-12, m=2.07)"),
]
open_ = [
 {"property": "C05", "mechanism": "stability:unstable_or_inexact:pixel_scale_below_1e-5_L0",
  "what": "for pixel scales below ~1e-5 L0 the von Karman screen still constructs but the row recursion is marginally unstable / its constant gain exceeds 1 (rho - 1 = 1e-8 at 3e-6 L0, 5e-5 at 1e-7 L0, 0.125 at 1e-9 L0): the stencil covariance is conditioned beyond double precision",
  "why_not_repaired": "needs extended precision or a refusal criterion for such samplings (a behaviour change); after the float64 repair the stable range already extends from 1e-4 L0 down to 1e-5 L0"},
 {"property": "C20", "mechanism": "global_state_changed:optimal_grouping:numpy_global_rng",
  "what": "optimal_grouping draws its random restarts from, and so advances, NumPy's global random generator (hidden global state read and written by a library call)",
  "why_not_repaired": "repair needs an API change (a seed / Generator parameter); C18 checks that its guarantees hold for arbitrary global states"},
 {"property": "C15", "mechanism": "centre_of_gravity:stack_vs_frame:thresholded",
  "what": "centre_of_gravity with a threshold: the 2-D path subtracts the threshold, the N-D (stack) path zeroes below it, so a stack differs from frame-by-frame processing (e.g. 0.07-0.17 px)",
  "why_not_repaired": "which of the two semantics is intended is a maintainer decision (docstring says 'zero', correlation_centroid relies on 'subtract'); each path is still checked against its own reference"},
 {"property": "C15", "mechanism": "quadCell:scale_invariance",
  "what": "quadCell returns un-normalised differences, so its output scales with the image instead of being invariant",
  "why_not_repaired": "normalising changes the scale of the returned signal, an API decision"},
 {"property": "C09", "mechanism": "irft:roundtrip_shape:odd",
  "what": "irft(rft(x)) cannot return an odd-length signal: the API has no length argument, the inverse has N-1 samples (e.g. N=47 -> 46)",
  "why_not_repaired": "needs an API change (an explicit length / parity argument)"},
 {"property": "C09", "mechanism": "irft2:roundtrip_shape:odd",
  "what": "irft2(rft2(x)) cannot return an odd-sized image: the API has no size argument (e.g. 47x47 -> 47x46)",
  "why_not_repaired": "needs an API change (an explicit size argument)"},
]
findings = []
for p, c, w in fixed:
    findings.append({"property": p, "status": "fixed", "commit": c, "what": w,
                     "line": "fixed: property=%s %s %s" % (p, c, w)})
for o in open_:
    o = dict(o, status="open")
    findings.append(o)
extra = os.path.join(VERIF, "tools", "known_open_extra.json")
if os.path.exists(extra):
    for o in json.load(open(extra)):
        findings.append(dict(o, status="open"))
json.dump({"comment": "Genuine defects of AOtools/aotools. status=open: recorded, not repaired; the check prints KNOWN-FINDING for failures whose mechanism key equals 'mechanism' and exits 0. status=fixed: repaired by the named fix: commit in /repo; suppresses nothing. Never written at run time.",
           "findings": findings}, open(os.path.join(VERIF, "known_findings.json"), "w"), indent=1)
print(len(findings), "entries")
