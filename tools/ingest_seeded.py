#!/venv/bin/python
"""Confirm a seeded change delivered by a sub-agent and file it under /verif/seeded/<id>/.

usage: tools/ingest_seeded.py <prop> <name> <patch.diff> <demo.py> [notes.md] [--checks C01,C03] [--tier quick]

Steps (all on a scratch copy of /repo under /dev/shm, removed afterwards):
  1. clean copy:    demo exits 0
  2. patched copy:  demo exits non-zero; the repository's own test suite still passes
  3. patched copy:  the registered quick check(s) for the property exit 1 (caught) -- recorded either way
Writes seeded/<prop>-<name>/{patch.diff, demo.py, notes.md, meta.json}.
"""
import argparse
import json
import os
import shutil
import subprocess
import sys
import tempfile
import time

VERIF = os.path.dirname(os.path.dirname(os.path.abspath(__file__)))
PY = "/venv/bin/python"


def run(cmd, **kw):
    return subprocess.run(cmd, stdout=subprocess.PIPE, stderr=subprocess.STDOUT, text=True, **kw)


def main():
    ap = argparse.ArgumentParser()
    ap.add_argument("prop")
    ap.add_argument("name")
    ap.add_argument("patch")
    ap.add_argument("demo")
    ap.add_argument("notes", nargs="?")
    ap.add_argument("--checks")
    ap.add_argument("--tier", default="quick")
    ap.add_argument("--skip-tests", action="store_true")
    a = ap.parse_args()
    checks = (a.checks or a.prop).split(",")
    scratch = tempfile.mkdtemp(prefix="aoseed_", dir="/dev/shm")
    meta = {"property": a.prop, "name": a.name, "confirmed_at": time.strftime("%Y-%m-%dT%H:%M:%SZ", time.gmtime())}
    try:
        clean = os.path.join(scratch, "clean")
        mut = os.path.join(scratch, "mut")
        for d in (clean, mut):
            subprocess.check_call(["rsync", "-a", "--exclude", ".git", "--exclude", "__pycache__", "/repo/", d + "/"])
        r = run(["patch", "-s", "-p1", "-d", mut, "-i", os.path.abspath(a.patch)])
        if r.returncode != 0:
            print("patch does not apply:", r.stdout)
            return 2
        env = dict(os.environ, MPLBACKEND="Agg")
        r0 = run([PY, os.path.abspath(a.demo)], env=dict(env, PYTHONPATH=clean), cwd=scratch, timeout=1800)
        r1 = run([PY, os.path.abspath(a.demo)], env=dict(env, PYTHONPATH=mut), cwd=scratch, timeout=1800)
        meta["demo_exit_clean"] = r0.returncode
        meta["demo_exit_changed"] = r1.returncode
        meta["demo_output_changed_tail"] = r1.stdout[-600:]
        if a.skip_tests:
            meta["tests_with_change"] = "skipped"
        else:
            t = run([PY, "-m", "pytest", "-q", "-p", "no:cacheprovider", "--timeout=900", "-x"], cwd=mut, env=env, timeout=3600)
            meta["tests_with_change"] = t.stdout.strip().splitlines()[-1] if t.stdout.strip() else ""
            meta["tests_exit_with_change"] = t.returncode
        res = {}
        for c in checks:
            e = dict(os.environ, AOTOOLS_REPO=mut, VERIF_EVIDENCE_DIR=os.path.join(scratch, "ev"))
            rc = run([os.path.join(VERIF, "vcheck"), c, a.tier], env=e)
            fails = [l.strip() for l in rc.stdout.splitlines() if l.strip().startswith("failing:")]
            res[c] = {"exit": rc.returncode, "failing": fails[:6]}
        meta["checks_on_changed_tree"] = res
        meta["caught_by"] = [c for c, v in res.items() if v["exit"] == 1]
        ok = (r0.returncode == 0 and r1.returncode != 0 and (a.skip_tests or meta.get("tests_exit_with_change") == 0))
        meta["confirmed"] = bool(ok)
        meta["what_i_ran"] = ("scratch copies of /repo under /dev/shm: demo on clean copy (exit %s), demo on changed copy (exit %s), "
                              "repository test suite on changed copy (%s), ./vcheck %s %s with AOTOOLS_REPO=<changed copy>"
                              % (r0.returncode, r1.returncode, meta["tests_with_change"], ",".join(checks), a.tier))
        if a.notes and os.path.exists(a.notes):
            meta["needs_to_manifest"] = open(a.notes).read()[:3000]
        dst = os.path.join(VERIF, "seeded", "%s-%s" % (a.prop, a.name))
        if ok:
            os.makedirs(dst, exist_ok=True)
            shutil.copy(a.patch, os.path.join(dst, "patch.diff"))
            shutil.copy(a.demo, os.path.join(dst, "demo.py"))
            if a.notes and os.path.exists(a.notes):
                shutil.copy(a.notes, os.path.join(dst, "notes.md"))
            with open(os.path.join(dst, "meta.json"), "w") as f:
                json.dump(meta, f, indent=1)
        print(json.dumps({k: meta[k] for k in ("property", "name", "confirmed", "demo_exit_clean", "demo_exit_changed",
                                                "tests_with_change", "caught_by")}, indent=None))
        for c, v in res.items():
            print("   ", c, v["exit"], v["failing"][:3])
        return 0 if ok else 1
    finally:
        shutil.rmtree(scratch, ignore_errors=True)


if __name__ == "__main__":
    sys.exit(main())
