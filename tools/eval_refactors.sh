#!/bin/sh
# usage: tools/eval_refactors.sh [tier]  -- behaviour-preserving refactorings written by sub-agents (selftest/refactors_agents/*.diff):
# every check of the properties anchored in the touched code must stay silent (exit 0) or inconclusive (exit 2) on a scratch copy.
cd "$(dirname "$0")/.." || exit 2
tier=${1:-quick}
bad=0
props_of() {
  case "$1" in
    slopecov_*) echo "C01 C02 C03 C20";;
    screens_r1|screens_r2) echo "C06 C07 C19 C20";;
    screens_r3) echo "C04 C05 C06 C20";;
    screens_r4) echo "C04 C05 C06 C08 C20";;
    fourier_optics_r1) echo "C09 C10 C11 C20";;
    fourier_optics_*) echo "C10 C11 C20";;
    zernike_kl_r1) echo "C12 C20";;
    zernike_kl_r2) echo "C14 C12 C16 C13 C20";;
    zernike_kl_*) echo "C13 C20";;
    image_interp_r1) echo "C15 C20";;
    image_interp_r2) echo "C16 C19 C20";;
    image_interp_r3) echo "C16 C20";;
    image_interp_r4) echo "C14 C20";;
    conversions_profiles_r1|conversions_profiles_r2) echo "C18 C20";;
    conversions_profiles_r3) echo "C17 C08 C20";;
    conversions_profiles_r4) echo "C19 C17 C20";;
  esac
}
for f in selftest/refactors_agents/*.diff; do
  n=$(basename "$f" .diff)
  for p in $(props_of "$n"); do
    r=$(selftest/mutant.py --tier $tier --patch "$f" --show $p 2>&1)
    h=$(echo "$r" | head -1)
    case "$h" in *"exit=0"*) echo "refactor $n $p -> silent";; *"exit=2"*) echo "refactor $n $p -> inconclusive"; echo "$r" | grep -E "INCONCLUSIVE|inconclusive" | head -3 | cut -c1-300;; *) echo "refactor $n $p -> $h (FALSE ALARM?)"; echo "$r" | grep -E "failing|VIOLATION" | head -5 | cut -c1-400; bad=1;; esac
  done
done
[ $bad -eq 0 ] && echo "REFACTORS SILENT" || echo "REFACTORS: ALARMS"
exit $bad
