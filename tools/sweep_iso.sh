#!/bin/sh
# usage: tools/sweep.sh <tier> "<seeds>" [props...]   -- runs checks over several VERIF_SEED values, reports non-zero exits
cd "$(dirname "$0")/.." || exit 2
tier=$1; seeds=$2; shift 2
props="$*"
[ -z "$props" ] && props=$(ls aomon/checks/c[0-9][0-9].py | sed 's|.*/c\([0-9]*\)\.py|C\1|')
bad=0
for s in $seeds; do for p in $props; do
  out=$(VERIF_SEED=$s VERIF_EVIDENCE_DIR=/dev/shm/sweep_ev_$$ ./vcheck $p $tier 2>&1); rc=$?
  if [ $rc -ne 0 ]; then bad=1; echo "== $p seed=$s rc=$rc"; echo "$out" | grep -E "failing|VIOLATION|INCONCLUSIVE" | cut -c1-400 | head -8; fi
done; done
rm -rf /dev/shm/sweep_ev_$$
[ $bad -eq 0 ] && echo "sweep clean: tier=$tier seeds=[$seeds] props=[$props]"
exit $bad
