#!/venv/bin/python
"""Re-run every filed seeded change against the *current* /repo and checks; refresh meta.json.

status: caught | MISSED | obsolete (patch no longer applies, or its demo no longer fails on the changed tree because a
later repair of /repo removed the situation it needs).  usage: tools/revalidate_seeded.py [names...] [--tier quick]
"""
import json, os, shutil, subprocess, sys, tempfile, time, concurrent.futures
VERIF = os.path.dirname(os.path.dirname(os.path.abspath(__file__)))
PY = "/venv/bin/python"
tier = "quick"
args = [a for a in sys.argv[1:] if not a.startswith("--")]
if "--tier" in sys.argv:
    tier = sys.argv[sys.argv.index("--tier") + 1]
    args = [a for a in args if a != tier]
names = args or sorted(os.listdir(os.path.join(VERIF, "seeded")))


def one(name):
    d = os.path.join(VERIF, "seeded", name)
    meta = json.load(open(os.path.join(d, "meta.json")))
    prop = meta["property"]
    scratch = tempfile.mkdtemp(prefix="aoreval_", dir="/dev/shm")
    try:
        clean, mut = os.path.join(scratch, "clean"), os.path.join(scratch, "mut")
        for t in (clean, mut):
            subprocess.check_call(["rsync", "-a", "--exclude", ".git", "--exclude", "__pycache__", "/repo/", t + "/"])
        r = subprocess.run(["patch", "-s", "-p1", "-d", mut, "-i", os.path.join(d, "patch.diff")], stdout=subprocess.PIPE, stderr=subprocess.STDOUT, text=True)
        if r.returncode != 0:
            meta["status_on_current_tree"] = "obsolete: patch no longer applies to /repo HEAD"
            return name, meta
        env = dict(os.environ, MPLBACKEND="Agg")
        run = lambda tree: subprocess.run([PY, os.path.join(d, "demo.py")], env=dict(env, PYTHONPATH=tree), cwd=scratch, stdout=subprocess.PIPE, stderr=subprocess.STDOUT, text=True, timeout=3600).returncode
        rc0, rc1 = run(clean), run(mut)
        meta["demo_exit_clean_current"], meta["demo_exit_changed_current"] = rc0, rc1
        props = sorted(set([prop] + meta.get("also_check", [])))
        res = {}
        for c in props:
            e = dict(os.environ, AOTOOLS_REPO=mut, VERIF_EVIDENCE_DIR=os.path.join(scratch, "ev"))
            rr = subprocess.run([os.path.join(VERIF, "vcheck"), c, tier], env=e, stdout=subprocess.PIPE, stderr=subprocess.STDOUT, text=True)
            res[c] = {"exit": rr.returncode, "failing": [l.strip()[9:].split(" :: ")[0] for l in rr.stdout.splitlines() if l.strip().startswith("failing:")][:6]}
        meta["checks_on_changed_tree"] = res
        meta["caught_by"] = [c for c, v in res.items() if v["exit"] == 1]
        if rc1 == 0 or rc0 != 0:
            meta["status_on_current_tree"] = "obsolete: demo exits %d on the clean and %d on the changed tree (a later repair of /repo removed what it needs)" % (rc0, rc1)
        elif meta["caught_by"]:
            meta["status_on_current_tree"] = "caught"
        elif meta.get("judged_out_of_scope"):
            # the change does not falsify the property as stated (see DESIGN.md section 9): nothing claims to catch it
            meta["status_on_current_tree"] = "out_of_scope: " + meta["judged_out_of_scope"]
        else:
            meta["status_on_current_tree"] = "MISSED"
        meta["revalidated_at"] = time.strftime("%Y-%m-%dT%H:%M:%SZ", time.gmtime())
        meta["revalidated_repo_head"] = subprocess.check_output(["git", "-C", "/repo", "log", "--format=%h", "-1"], text=True).strip()
        return name, meta
    finally:
        shutil.rmtree(scratch, ignore_errors=True)


with concurrent.futures.ThreadPoolExecutor(max_workers=4) as ex:
    for name, meta in ex.map(one, names):
        json.dump(meta, open(os.path.join(VERIF, "seeded", name, "meta.json"), "w"), indent=1)
        print("%-8s %-60s %s" % (name, meta["status_on_current_tree"][:60], ",".join(meta.get("caught_by", []))))
