#!/bin/sh
# round 10: ingest (in parallel) whatever sub-agent outputs exist under /tmp/mut10 and are not filed yet
cd "$(dirname "$0")/.." || exit 2
for d in /tmp/mut10/C*_out; do
  p=$(basename $d _out)
  k=m12
  [ -f $d/$k.diff ] || continue
  [ -f $d/${k}_demo.py ] || continue
  [ -f $d/${k}_notes.md ] || continue
  [ -d seeded/$p-$k ] && continue
  [ -f /dev/shm/ingest10_$p.log ] && continue
  ( tools/ingest_seeded.py $p $k $d/$k.diff $d/${k}_demo.py $d/${k}_notes.md "$@" > /dev/shm/ingest10_$p.log 2>&1; echo "$p: $(tail -2 /dev/shm/ingest10_$p.log | cut -c1-330)" ) &
done
wait
