#!/venv/bin/python
"""usage: tools/mkmutant.py <name> <file-relative-to-repo> <old> <new>   -> selftest/mutants/<name>.diff (old must occur exactly once)"""
import os, subprocess, sys, tempfile, shutil
name, rel, old, new = sys.argv[1:5]
count = int(sys.argv[5]) if len(sys.argv) > 5 else 1
src = open(os.path.join("/repo", rel)).read()
old = old.encode().decode("unicode_escape"); new = new.encode().decode("unicode_escape")
assert src.count(old) == count, "occurs %d times" % src.count(old)
d = tempfile.mkdtemp(dir="/dev/shm")
try:
    a = os.path.join(d, "a", rel); b = os.path.join(d, "b", rel)
    os.makedirs(os.path.dirname(a)); os.makedirs(os.path.dirname(b))
    open(a, "w").write(src); open(b, "w").write(src.replace(old, new))
    r = subprocess.run(["diff", "-u", "a/" + rel, "b/" + rel], cwd=d, stdout=subprocess.PIPE, text=True)
    out = os.path.join(os.path.dirname(os.path.dirname(os.path.abspath(__file__))), "selftest", "mutants", name + ".diff")
    open(out, "w").write(r.stdout)
    print("wrote", out, len(r.stdout.splitlines()), "lines")
finally:
    shutil.rmtree(d)
